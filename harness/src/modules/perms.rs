//! C11c: seeded generator of valid multi-declaration programs (constants, structures, words,
//! functions calling each other, a `main` that prints a few values), rendered in any order of their
//! top-level declarations.
//!
//! Declaration a (1-based, generation order = a topological order of the containers) is named
//! `C<a>` / `S<a>` / `W<a>` / `f<a>`; the last declaration is `main`.  The generator knows the value
//! of every constant that is used as an array length, so that array literals have the right length.
//! Known findings of C11a are avoided by construction (no member of type `&[C]T`).

use pvh::rng::Rng;

#[derive(Clone, Debug)]
enum Item {
    /// usize constant whose value the generator knows
    Pure { value: usize, text: String },
    /// i32 constant
    Int { value: i64, text: String },
    /// usize constant involving |:S| (value unknown to the generator, only printed)
    Derived { text: String },
    /// array constant [Cp]i32
    Arr { len_const: usize, elems: Vec<i64> },
    Word,
    /// instantiable structure: (member name, member)
    Value { members: Vec<(String, VMember)> },
    /// structure that is never instantiated (may hold pointers)
    Shape { members: Vec<String> },
    /// `ext`: declared `extern` (C calling convention; still private to its module unless `pub`)
    Func { body: String, ext: bool },
    Main { body: String },
    // ---- kinds added by the dimension audit (Program::extend_kinds) ----
    /// function head without a body, never called: `fn h<a>(..) -> i32;` or `extern fn h<a>(buf: []u8, n: usize) -> i32;`
    Head { text: String },
    /// opaque structure `struct S<a>;` (only ever used behind pointers)
    Opaque,
    /// `word128 W<a> { w: W<inner>, x: i32, y: i32 }` -- a word that contains a word
    WordIn { inner: usize },
    /// constant of structure / word type: `const C<a>: S<of> = S<of> { .. };` (text = the literal)
    SConst { of: usize, word: bool, text: String },
    /// `const C<a>: [2][C<len_const>]i32 = [[..], [..]];`
    Arr2 { len_const: usize, rows: Vec<Vec<i64>> },
    /// array constant whose TYPE mentions a constant and whose VALUE mentions others: `[C<len>]i32 = [C<i> + 1, ..]`
    ArrExpr { len_const: usize, texts: Vec<String> },
    /// function that takes structures / words / views across declaration (and module) borders
    FuncSig { params: String, body: String, ret: String },
}

#[derive(Clone, Debug)]
enum VMember {
    Int,
    ArrLit(usize),
    ArrNamed(usize, usize), // constant, its value
    Word(usize),
    Nested(usize),
    /// `[2]S<t>`: an array of structures as a member
    NestedArr(usize),
}

pub struct Program {
    items: Vec<Item>,
}

fn pick_idx(rng: &mut Rng, items: &[Item], f: impl Fn(&Item) -> bool) -> Option<usize> {
    let c: Vec<usize> = items.iter().enumerate().filter(|(_, x)| f(x)).map(|(i, _)| i + 1).collect();
    if c.is_empty() { None } else { Some(c[rng.below(c.len())]) }
}

impl Program {
    pub fn len(&self) -> usize {
        self.items.len()
    }

    fn value_literal(&self, s: usize, rng: &mut Rng, a: &str, b: &str) -> String {
        let Item::Value { members } = &self.items[s - 1] else { panic!("not a value struct") };
        let mut out = format!("S{s} {{ ");
        for (i, (name, m)) in members.iter().enumerate() {
            if i > 0 {
                out.push_str(", ");
            }
            let e = match m {
                VMember::Int => format!("{a} + {}", rng.range(1, 9)),
                VMember::ArrLit(n) | VMember::ArrNamed(_, n) => {
                    let xs: Vec<String> = (0..*n).map(|_| rng.range(1, 20).to_string()).collect();
                    format!("[{}]", xs.join(", "))
                }
                VMember::Word(w) => format!("W{w} {{ x: {a}, y: {b} }}"),
                VMember::Nested(t) => self.value_literal(*t, rng, a, b),
                VMember::NestedArr(t) => format!("[{}, {}]", self.value_literal(*t, rng, a, b), self.value_literal(*t, rng, b, a)),
            };
            out.push_str(&format!("{name}: {e}"));
        }
        out.push_str(" }");
        out
    }

    /// an i32 expression reading something out of a value of struct `s` held in variable `v`
    fn value_read(&self, s: usize, v: &str, rng: &mut Rng) -> String {
        let Item::Value { members } = &self.items[s - 1] else { panic!("not a value struct") };
        let (name, m) = &members[rng.below(members.len())];
        match m {
            VMember::Int => format!("{v}.{name}"),
            VMember::ArrLit(n) | VMember::ArrNamed(_, n) => format!("{v}.{name}[{}]", rng.below(*n)),
            VMember::Word(_) => format!("{v}.{name}.{}", if rng.chance(50) { "x" } else { "y" }),
            VMember::Nested(t) => self.value_read(*t, &format!("{v}.{name}"), rng),
            VMember::NestedArr(t) => self.value_read(*t, &format!("{v}.{name}[{}]", rng.below(2)), rng),
        }
    }

    /// Dimension audit: every fourth program (indices 1 and 6 mod 8: one with shared names, one without) additionally holds EVERY kind of declaration -- a chain of five constants
    /// and of five nested structures (dependency chains longer than the exhaustive bound), a diamond of structures, an
    /// array of structures as a member, a word that contains a word, constants of structure / word / nested-array type,
    /// an array constant whose type AND value mention other constants, an opaque structure behind pointers, function
    /// heads (plain and extern) that are never called, functions that take structures, words, pointers and views.
    /// Drawn from a generator of its own, so that the draws of the original program are not shifted.
    fn extend_kinds(&mut self, seed: u64, index: usize) {
        if index % 8 != 1 && index % 8 != 6 {
            return;
        }
        let mut rng = Rng::new(seed, 0xC11C_A000 + index as u64);
        // chain of constants C -> C -> C -> C -> C (values 1..5, usable as lengths)
        let mut prev = 0;
        for i in 1..=5usize {
            let text = if prev == 0 { "1".to_string() } else if i % 2 == 0 { format!("C{prev} + 1") } else { format!("1 + C{prev}") };
            self.items.push(Item::Pure { value: i, text });
            prev = self.items.len();
        }
        let chain_end = prev;
        // chain of nested structures, five deep; the innermost has an array whose length ends the constant chain
        let mut inner = 0;
        for i in 0..5 {
            let mut members = vec![("a".to_string(), VMember::Int)];
            if inner == 0 {
                members.push(("b".to_string(), VMember::ArrNamed(chain_end, 5)));
            } else if i == 2 {
                members.push(("v".to_string(), VMember::NestedArr(inner)));
            } else {
                members.push(("v".to_string(), VMember::Nested(inner)));
            }
            self.items.push(Item::Value { members });
            inner = self.items.len();
        }
        let deep = inner;
        // diamond D4 -> {D2, D3} -> D1
        self.items.push(Item::Value { members: vec![("a".to_string(), VMember::Int)] });
        let d1 = self.items.len();
        self.items.push(Item::Value { members: vec![("a".to_string(), VMember::Int), ("v".to_string(), VMember::Nested(d1))] });
        let d2 = self.items.len();
        self.items.push(Item::Value { members: vec![("v".to_string(), VMember::Nested(d1)), ("a".to_string(), VMember::Int)] });
        let d3 = self.items.len();
        self.items.push(Item::Value { members: vec![("a".to_string(), VMember::Int), ("v".to_string(), VMember::Nested(d2)), ("u".to_string(), VMember::Nested(d3))] });
        let d4 = self.items.len();
        // a word in a word
        let w = pick_idx(&mut rng, &self.items, |x| matches!(x, Item::Word)).unwrap();
        self.items.push(Item::WordIn { inner: w });
        let win = self.items.len();
        // constants of structure, word and nested array type; type and value both mention constants
        let lit = self.value_literal(d4, &mut rng, "1", "2");
        self.items.push(Item::SConst { of: d4, word: false, text: lit });
        let sconst = self.items.len();
        self.items.push(Item::SConst { of: w, word: true, text: format!("W{w} {{ x: {}, y: {} }}", rng.range(1, 50), rng.range(1, 50)) });
        let wconst = self.items.len();
        let lc = pick_idx(&mut rng, &self.items, |x| matches!(x, Item::Pure { .. })).unwrap();
        let Item::Pure { value: lv, .. } = self.items[lc - 1].clone() else { unreachable!() };
        let rows = (0..2).map(|_| (0..lv).map(|_| rng.range(1, 50) as i64).collect()).collect();
        self.items.push(Item::Arr2 { len_const: lc, rows });
        let arr2 = self.items.len();
        let ic = pick_idx(&mut rng, &self.items, |x| matches!(x, Item::Int { .. })).unwrap();
        let texts = (0..lv).map(|k| if k % 2 == 0 { format!("C{ic} + {}", rng.range(1, 9)) } else { rng.range(1, 50).to_string() }).collect();
        self.items.push(Item::ArrExpr { len_const: lc, texts });
        let arrx = self.items.len();
        // opaque structure, a shape pointing to it, heads
        self.items.push(Item::Opaque);
        let op = self.items.len();
        self.items.push(Item::Shape { members: vec!["k: i64".to_string(), format!("o: &S{op}"), format!("t: [2][C{chain_end}]u8"), format!("d: &S{deep}")] });
        let shape = self.items.len();
        self.items.push(Item::Head { text: format!("fn h{}(o: &S{op}, s: S{shape}, w: W{win}) -> i32;\n", self.items.len() + 1) });
        self.items.push(Item::Head { text: format!("extern fn h{}(buf: []u8, n: usize, p: &i32) -> i32;\n", self.items.len() + 1) });
        // functions whose signatures mention structures, words, pointers and views
        self.items.push(Item::FuncSig {
            params: format!("s: S{d4}, w: W{w}, ww: W{win}"),
            ret: "i32".to_string(),
            body: format!("\treturn: {} + w.x - w.y + ww.w.x + ww.y\n", self.value_read(d4, "s", &mut rng)),
        });
        let fsig = self.items.len();
        self.items.push(Item::FuncSig {
            params: format!("p: &S{d1}, xs: []i32, k: i32"),
            ret: "i32".to_string(),
            body: "\tp.a = p.a + k;\n\tvar t: i32 = xs[0] + p.a;\n\treturn: t + (|xs| as i32)\n".to_string(),
        });
        let fptr = self.items.len();
        // one more function that uses all of it
        let deep_lit = self.value_literal(deep, &mut rng, "a", "b");
        let d4_lit = self.value_literal(d4, &mut rng, "b", "a");
        let mut body = String::new();
        body.push_str(&format!("\tvar deep = {deep_lit};\n"));
        body.push_str(&format!("\tvar dia = {d4_lit};\n"));
        body.push_str(&format!("\tvar one = S{d1} {{ a: a }};\n"));
        body.push_str(&format!("\tvar ww = W{win} {{ w: W{w} {{ x: a, y: b }}, x: 3, y: 4 }};\n"));
        body.push_str(&format!("\tvar t: i32 = {} + {};\n", self.value_read(deep, "deep", &mut rng), self.value_read(deep, "deep", &mut rng)));
        body.push_str(&format!("\tt = t + f{fsig}(dia, ww.w, ww) + f{fptr}(&one, C{arrx}, 2) + one.a;\n"));
        body.push_str(&format!("\tt = t + {} + C{wconst}.x + C{arr2}[1][{}] + C{arrx}[0];\n", self.value_read(d4, &format!("C{sconst}"), &mut rng), rng.below(lv)));
        body.push_str(&format!("\tt = t + (|:S{shape}| as i32) + (|:W{win}| as i32) + (|:S{deep}| as i32) + (C{chain_end} as i32);\n"));
        body.push_str("\treturn: t % 1000\n");
        let n = self.items.len() + 1;
        let ext = Rng::new(seed, 0xC11C_E000 + n as u64).chance(50);
        self.items.push(Item::Func { body, ext });
    }

    pub fn generate(seed: u64, index: usize) -> Program {
        let mut rng = Rng::new(seed, 0xC11C_0000 + index as u64);
        let mut p = Program { items: Vec::new() };
        // always start with one pure constant, one i32 constant and one word
        p.items.push(Item::Pure { value: rng.range(2, 4), text: String::new() });
        if let Item::Pure { value, text } = &mut p.items[0] {
            *text = value.to_string();
        }
        let v = rng.range(1, 60) as i64;
        p.items.push(Item::Int { value: v, text: v.to_string() });
        p.items.push(Item::Word);
        let extra = rng.range(4, 9);
        for _ in 0..extra {
            let n = p.items.len() + 1;
            match rng.weighted(&[2, 1, 2, 1, 1, 3, 2]) {
                0 => {
                    // pure constant from an earlier pure constant
                    let j = pick_idx(&mut rng, &p.items, |x| matches!(x, Item::Pure { .. })).unwrap();
                    let Item::Pure { value: vj, .. } = p.items[j - 1].clone() else { unreachable!() };
                    let (value, text) = match rng.below(3) {
                        0 => (vj + 1, format!("C{j} + 1")),
                        1 if vj * 2 <= 8 => (vj * 2, format!("C{j} * 2")),
                        _ => {
                            let k = rng.range(1, 5);
                            (k, k.to_string())
                        }
                    };
                    if value <= 8 {
                        p.items.push(Item::Pure { value, text });
                    }
                }
                1 => {
                    let j = pick_idx(&mut rng, &p.items, |x| matches!(x, Item::Int { .. })).unwrap();
                    let Item::Int { value: vj, .. } = p.items[j - 1].clone() else { unreachable!() };
                    let k = rng.range(1, 30) as i64;
                    p.items.push(Item::Int { value: vj + k, text: format!("C{j} + {k}") });
                }
                2 => {
                    // derived constant: needs a structure or word
                    if let Some(s) = pick_idx(&mut rng, &p.items, |x| matches!(x, Item::Value { .. } | Item::Shape { .. } | Item::Word)) {
                        let j = pick_idx(&mut rng, &p.items, |x| matches!(x, Item::Pure { .. })).unwrap();
                        let sname = if matches!(p.items[s - 1], Item::Word) { format!("W{s}") } else { format!("S{s}") };
                        p.items.push(Item::Derived { text: format!("C{j} * 2 + |:{sname}|") });
                    }
                }
                3 => {
                    let j = pick_idx(&mut rng, &p.items, |x| matches!(x, Item::Pure { .. })).unwrap();
                    let Item::Pure { value: vj, .. } = p.items[j - 1].clone() else { unreachable!() };
                    let elems = (0..vj).map(|_| rng.range(1, 50) as i64).collect();
                    p.items.push(Item::Arr { len_const: j, elems });
                }
                4 => p.items.push(Item::Word),
                5 => {
                    let mut members = vec![("a".to_string(), VMember::Int)];
                    if rng.chance(70) {
                        if rng.chance(60) {
                            let j = pick_idx(&mut rng, &p.items, |x| matches!(x, Item::Pure { .. })).unwrap();
                            let Item::Pure { value: vj, .. } = p.items[j - 1].clone() else { unreachable!() };
                            members.push(("b".to_string(), VMember::ArrNamed(j, vj)));
                        } else {
                            members.push(("b".to_string(), VMember::ArrLit(rng.range(1, 4))));
                        }
                    }
                    if rng.chance(50) {
                        let w = pick_idx(&mut rng, &p.items, |x| matches!(x, Item::Word)).unwrap();
                        members.push(("w".to_string(), VMember::Word(w)));
                    }
                    if rng.chance(40) {
                        if let Some(t) = pick_idx(&mut rng, &p.items, |x| matches!(x, Item::Value { .. })) {
                            members.push(("v".to_string(), VMember::Nested(t)));
                        }
                    }
                    p.items.push(Item::Value { members });
                }
                _ => {
                    let mut members = vec!["k: i64".to_string()];
                    if let Some(t) = pick_idx(&mut rng, &p.items, |x| matches!(x, Item::Value { .. } | Item::Shape { .. })) {
                        if rng.chance(70) {
                            members.push(format!("s: S{t}"));
                        }
                    }
                    // pointers may point anywhere, also to the structure itself
                    let target = if rng.chance(50) { n } else {
                        pick_idx(&mut rng, &p.items, |x| matches!(x, Item::Value { .. } | Item::Shape { .. })).unwrap_or(n)
                    };
                    members.push(format!("q: &S{target}"));
                    if rng.chance(60) {
                        let c = pick_idx(&mut rng, &p.items, |x| matches!(x, Item::Pure { .. } | Item::Derived { .. })).unwrap();
                        members.push(format!("n: [C{c}]u8"));
                    }
                    if rng.chance(40) {
                        let w = pick_idx(&mut rng, &p.items, |x| matches!(x, Item::Word)).unwrap();
                        members.push(format!("t: [2]W{w}"));
                    }
                    p.items.push(Item::Shape { members });
                }
            }
        }
        p.extend_kinds(seed, index);
        // functions: f may call functions generated BEFORE it (no recursion)
        let nf = rng.range(2, 4);
        let mut funcs: Vec<usize> = p.items.iter().enumerate().filter(|(_, x)| matches!(x, Item::Func { .. })).map(|(i, _)| i + 1).collect();
        for _ in 0..nf {
            let n = p.items.len() + 1;
            let mut body = String::new();
            let ci = pick_idx(&mut rng, &p.items, |x| matches!(x, Item::Int { .. })).unwrap();
            body.push_str(&format!("\tvar t: i32 = a * {} + b + C{ci};\n", rng.range(2, 5)));
            let mut terms: Vec<String> = Vec::new();
            if rng.chance(70) {
                let j = pick_idx(&mut rng, &p.items, |x| matches!(x, Item::Pure { .. })).unwrap();
                let Item::Pure { value: vj, .. } = p.items[j - 1].clone() else { unreachable!() };
                let xs: Vec<String> = (0..vj).map(|_| rng.range(1, 30).to_string()).collect();
                body.push_str(&format!("\tvar arr: [C{j}]i32 = [{}];\n", xs.join(", ")));
                terms.push(format!("arr[{}]", rng.below(vj)));
                terms.push("(|arr| as i32)".to_string());
            }
            if let Some(s) = pick_idx(&mut rng, &p.items, |x| matches!(x, Item::Value { .. })) {
                let lit = p.value_literal(s, &mut rng, "a", "b");
                body.push_str(&format!("\tvar s = {lit};\n"));
                terms.push(p.value_read(s, "s", &mut rng));
                if rng.chance(50) {
                    terms.push(p.value_read(s, "s", &mut rng));
                }
            }
            if let Some(c) = pick_idx(&mut rng, &p.items, |x| matches!(x, Item::Arr { .. })) {
                let Item::Arr { elems, .. } = &p.items[c - 1] else { unreachable!() };
                terms.push(format!("C{c}[{}]", rng.below(elems.len())));
            }
            if let Some(c) = pick_idx(&mut rng, &p.items, |x| matches!(x, Item::Derived { .. } | Item::Pure { .. })) {
                if rng.chance(60) {
                    terms.push(format!("(C{c} as i32)"));
                }
            }
            if !funcs.is_empty() && rng.chance(80) {
                let g = funcs[rng.below(funcs.len())];
                terms.push(format!("f{g}(b, {})", rng.range(1, 9)));
            }
            if !terms.is_empty() {
                body.push_str(&format!("\tt = t + {};\n", terms.join(" + ")));
            }
            let k = rng.range(10, 90);
            body.push_str(&format!("\tif t > {k}\n\t{{\n\t\tt = t - {};\n\t}}\n\telse\n\t{{\n\t\tt = t + {};\n\t}}\n",
                rng.range(1, 9), rng.range(1, 9)));
            body.push_str("\treturn: t % 1000\n");
            // drawn from a stream of its own, so that the rest of the program is what it was without the flag
            // ... and a function of the NAME only (not of the program): two unrelated modules of one history
            // that both have a function f<n> then both have it `extern`, or neither
            let ext = Rng::new(seed, 0xC11C_E000 + n as u64).chance(50);
            p.items.push(Item::Func { body, ext });
            funcs.push(n);
        }
        // main
        let mut body = String::new();
        for f in &funcs {
            body.push_str(&format!("\tprint!(\"f{f}=\", f{f}({}, {}), \"\\n\");\n", rng.range(0, 20), rng.range(0, 20)));
        }
        for (i, it) in p.items.iter().enumerate() {
            let a = i + 1;
            match it {
                Item::Derived { .. } | Item::Pure { .. } if rng.chance(70) => body.push_str(&format!("\tprint!(\"C{a}=\", C{a}, \"\\n\");\n")),
                Item::Value { .. } | Item::Shape { .. } if rng.chance(70) => body.push_str(&format!("\tprint!(\"S{a}:\", |:S{a}|, \"\\n\");\n")),
                Item::Arr { elems, .. } => body.push_str(&format!("\tprint!(\"C{a}[]=\", C{a}[{}], \"\\n\");\n", rng.below(elems.len()))),
                _ => (),
            }
        }
        let f = funcs[rng.below(funcs.len())];
        body.push_str(&format!("\tvar x: i32 = f{f}({}, {}) % 100;\n\tif x < 0\n\t{{\n\t\tx = 0 - x;\n\t}}\n\treturn: x as u8\n", rng.range(0, 9), rng.range(0, 9)));
        p.items.push(Item::Main { body });
        p
    }

    pub fn name(&self, a: usize) -> String {
        match &self.items[a - 1] {
            Item::Pure { .. } | Item::Derived { .. } | Item::Int { .. } | Item::Arr { .. } => format!("C{a}"),
            Item::SConst { .. } | Item::Arr2 { .. } | Item::ArrExpr { .. } => format!("C{a}"),
            Item::Word | Item::WordIn { .. } => format!("W{a}"),
            Item::Value { .. } | Item::Shape { .. } | Item::Opaque => format!("S{a}"),
            Item::Func { .. } | Item::FuncSig { .. } => format!("f{a}"),
            Item::Head { .. } => format!("h{a}"),
            Item::Main { .. } => "main".to_string(),
        }
    }

    pub fn kind(&self, a: usize) -> &'static str {
        match &self.items[a - 1] {
            Item::Pure { .. } | Item::Derived { .. } | Item::Int { .. } | Item::Arr { .. } => "const",
            Item::SConst { .. } | Item::Arr2 { .. } | Item::ArrExpr { .. } => "const",
            Item::Word | Item::Value { .. } | Item::Shape { .. } | Item::Opaque | Item::WordIn { .. } => "struct",
            Item::Func { .. } | Item::Main { .. } | Item::Head { .. } | Item::FuncSig { .. } => "fn",
        }
    }

    /// is declaration a a constant, structure or word (its definition travels with an import)?
    pub fn is_container(&self, a: usize) -> bool {
        !matches!(&self.items[a - 1], Item::Func { .. } | Item::Main { .. } | Item::Head { .. } | Item::FuncSig { .. })
    }

    /// the declarations whose name occurs in the text of declaration a
    pub fn refs(&self, a: usize) -> Vec<usize> {
        let text = self.decl_text(a);
        let mut idents: Vec<String> = Vec::new();
        let mut cur = String::new();
        for c in text.chars() {
            if c.is_ascii_alphanumeric() || c == '_' {
                cur.push(c);
            } else if !cur.is_empty() {
                idents.push(std::mem::take(&mut cur));
            }
        }
        (1..=self.items.len()).filter(|b| *b != a && idents.contains(&self.name(*b))).collect()
    }

    /// the declarations whose name occurs in the SIGNATURE of function a (they travel with an import of the function)
    pub fn sig_refs(&self, a: usize) -> Vec<usize> {
        let text = match &self.items[a - 1] {
            Item::FuncSig { params, ret, .. } => format!("{params} {ret}"),
            Item::Head { text } => text.clone(),
            _ => return Vec::new(),
        };
        let mut idents: Vec<String> = Vec::new();
        let mut cur = String::new();
        for c in text.chars() {
            if c.is_ascii_alphanumeric() || c == '_' {
                cur.push(c);
            } else if !cur.is_empty() {
                idents.push(std::mem::take(&mut cur));
            }
        }
        if !cur.is_empty() {
            idents.push(cur);
        }
        (1..=self.items.len()).filter(|b| *b != a && idents.contains(&self.name(*b))).collect()
    }

    /// the program without its `main` (a library of unrelated declarations)
    pub fn without_main(mut self) -> Program {
        self.items.pop();
        self
    }

    pub fn decl_text(&self, a: usize) -> String {
        match &self.items[a - 1] {
            Item::Pure { text, .. } | Item::Derived { text } => format!("const C{a}: usize = {text};\n"),
            Item::Int { text, .. } => format!("const C{a}: i32 = {text};\n"),
            Item::Arr { len_const, elems } => {
                let xs: Vec<String> = elems.iter().map(|x| x.to_string()).collect();
                format!("const C{a}: [C{len_const}]i32 = [{}];\n", xs.join(", "))
            }
            Item::Word => format!("word64 W{a}\n{{\n\tx: i32,\n\ty: i32,\n}}\n"),
            Item::Value { members } => {
                let mut s = format!("struct S{a}\n{{\n");
                for (name, m) in members {
                    let t = match m {
                        VMember::Int => "i32".to_string(),
                        VMember::ArrLit(n) => format!("[{n}]i32"),
                        VMember::ArrNamed(c, _) => format!("[C{c}]i32"),
                        VMember::Word(w) => format!("W{w}"),
                        VMember::Nested(t) => format!("S{t}"),
                        VMember::NestedArr(t) => format!("[2]S{t}"),
                    };
                    s.push_str(&format!("\t{name}: {t},\n"));
                }
                s.push_str("}\n");
                s
            }
            Item::Shape { members } => {
                let mut s = format!("struct S{a}\n{{\n");
                for m in members {
                    s.push_str(&format!("\t{m},\n"));
                }
                s.push_str("}\n");
                s
            }
            Item::Func { body, ext } => format!("{}fn f{a}(a: i32, b: i32) -> i32\n{{\n{body}}}\n", if *ext { "extern " } else { "" }),
            Item::Head { text } => text.clone(),
            Item::Opaque => format!("struct S{a};\n"),
            Item::WordIn { inner } => format!("word128 W{a}\n{{\n\tw: W{inner},\n\tx: i32,\n\ty: i32,\n}}\n"),
            Item::SConst { of, word, text } => format!("const C{a}: {}{of} = {text};\n", if *word { "W" } else { "S" }),
            Item::Arr2 { len_const, rows } => {
                let rs: Vec<String> = rows.iter().map(|r| format!("[{}]", r.iter().map(|x| x.to_string()).collect::<Vec<_>>().join(", "))).collect();
                format!("const C{a}: [2][C{len_const}]i32 = [{}];\n", rs.join(", "))
            }
            Item::ArrExpr { len_const, texts } => format!("const C{a}: [C{len_const}]i32 = [{}];\n", texts.join(", ")),
            Item::FuncSig { params, body, ret } => format!("fn f{a}({params}) -> {ret}\n{{\n{body}}}\n"),
            Item::Main { body } => format!("fn main() -> u8\n{{\n{body}}}\n"),
        }
    }

    /// C11 (namespaces): constants, structures/words and functions are three separate namespaces, so a
    /// module may use one name for one declaration of each.  For every second program one or two groups
    /// of declarations of different kinds share a name `N<k>`; the pairs (generated name, shared name)
    /// are applied to the rendered text by `render_shared`.  A program with shared names is still a
    /// set of declarations: every order must be accepted and behave alike.
    pub fn shared_names(&self, seed: u64, index: usize) -> Vec<(String, String)> {
        let mut out = Vec::new();
        if index % 2 == 0 {
            return out;
        }
        let mut rng = Rng::new(seed, 0xC11C_4000 + index as u64);
        let n = self.items.len();
        let mut pools: Vec<Vec<usize>> = vec![Vec::new(), Vec::new(), Vec::new()];
        for a in 1..=n {
            match self.kind(a) {
                "const" => pools[0].push(a),
                "struct" => pools[1].push(a),
                _ if !matches!(self.items[a - 1], Item::Main { .. }) => pools[2].push(a),
                _ => (),
            }
        }
        let groups = rng.range(1, 2);
        for k in 1..=groups {
            // which namespaces take part: at least two of the three
            let mask = [0b011, 0b101, 0b110, 0b111, 0b011][rng.below(5)];
            for (bit, pool) in pools.iter_mut().enumerate() {
                if mask & (1 << bit) != 0 && !pool.is_empty() {
                    let a = pool.remove(rng.below(pool.len()));
                    out.push((self.name(a), format!("N{k}")));
                }
            }
        }
        out
    }

    pub fn render_shared(&self, order: &[usize], shared: &[(String, String)]) -> String {
        let text = self.render(order);
        if shared.is_empty() {
            return text;
        }
        let mut out = String::with_capacity(text.len());
        let mut cur = String::new();
        let flush = |cur: &mut String, out: &mut String| {
            if !cur.is_empty() {
                match shared.iter().find(|(from, _)| from == cur) {
                    Some((_, to)) => out.push_str(to),
                    None => out.push_str(cur),
                }
                cur.clear();
            }
        };
        for c in text.chars() {
            if c.is_ascii_alphanumeric() || c == '_' {
                cur.push(c);
            } else {
                flush(&mut cur, &mut out);
                out.push(c);
            }
        }
        flush(&mut cur, &mut out);
        out
    }

    pub fn render(&self, order: &[usize]) -> String {
        let mut s = String::new();
        for a in order {
            s.push_str(&self.decl_text(*a));
            s.push('\n');
        }
        s
    }
}

pub fn shuffled(n: usize, rng: &mut Rng) -> Vec<usize> {
    let mut perm: Vec<usize> = (1..=n).collect();
    for i in (1..n).rev() {
        perm.swap(i, rng.below(i + 1));
    }
    perm
}

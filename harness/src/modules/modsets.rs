//! C12: module sets in the vocabulary of spec/Modules.tla.
//!
//! A module set is a list of modules {dir:[..], name, imports:[{dir:[..], name}], decls:[{n,k,pub}]}.
//! Module i is the file `<dir>/<name>.pn`.  Rendering: one line per import, one line per declaration,
//! then one PROBE function per declared name of the whole program (one line each), so that one
//! compilation shows for every (module, name) whether the name is visible there.

use super::driver;
use pvh::rng::Rng;
use serde_json::{Value, json};

#[derive(Clone, Debug)]
pub struct Decl {
    pub n: String,
    pub k: String,
    pub public: bool,
    /// a function with a body (false: a head `fn f() -> i32;`); always true for constants and structures
    pub body: bool,
    /// marked `extern`
    pub ext: bool,
}

fn decl_from_json(d: &Value) -> Decl {
    Decl {
        n: d["n"].as_str().unwrap().to_string(),
        k: d["k"].as_str().unwrap().to_string(),
        public: d["pub"].as_bool().unwrap(),
        body: d.get("body").and_then(|x| x.as_bool()).unwrap_or(true),
        ext: d.get("ext").and_then(|x| x.as_bool()).unwrap_or(false),
    }
}

#[derive(Clone, Debug)]
pub struct Module {
    pub dir: Vec<String>,
    pub name: String,
    pub imports: Vec<(Vec<String>, String)>,
    pub decls: Vec<Decl>,
    /// number of own declarations written BEFORE the import lines (Modules.tla: ipos)
    pub ipos: usize,
}

pub struct Rendered {
    pub files: Vec<(String, String)>,
    /// per module: (line, probed name)
    pub probe_lines: Vec<Vec<(usize, String)>>,
    /// per module: line of import x
    pub import_lines: Vec<Vec<usize>>,
}

fn strs(v: &Value) -> Vec<String> {
    v.as_array().map(|a| a.iter().map(|x| x.as_str().unwrap_or("").to_string()).collect()).unwrap_or_default()
}

pub fn path_text(dir: &[String], name: &str) -> String {
    let mut s = String::new();
    for d in dir {
        s.push_str(d);
        s.push('/');
    }
    s.push_str(name);
    s.push_str(".pn");
    s
}

/// From a TLC case {decls:[[{n,k,pub}..]..], imports:[[j..]..]} (flat directory, files m1.pn ...).
pub fn from_case(case: &Value) -> Vec<Module> {
    let decls = case["decls"].as_array().expect("decls");
    let imports = case["imports"].as_array().expect("imports");
    decls
        .iter()
        .enumerate()
        .map(|(i, ds)| Module {
            ipos: case.get("ipos").and_then(|p| p.get(i)).and_then(|x| x.as_u64()).unwrap_or(0) as usize,
            dir: Vec::new(),
            name: format!("m{}", i + 1),
            imports: imports[i].as_array().unwrap().iter().map(|j| (Vec::new(), format!("m{}", j.as_u64().unwrap()))).collect(),
            decls: ds.as_array().unwrap().iter().map(decl_from_json).collect(),
        })
        .collect()
}

pub fn from_json(v: &Value) -> Vec<Module> {
    v.as_array()
        .expect("modules")
        .iter()
        .map(|m| Module {
            ipos: m.get("ipos").and_then(|x| x.as_u64()).unwrap_or(0) as usize,
            dir: strs(&m["dir"]),
            name: m["name"].as_str().unwrap().to_string(),
            imports: m["imports"].as_array().unwrap().iter().map(|i| (strs(&i["dir"]), i["name"].as_str().unwrap().to_string())).collect(),
            decls: m["decls"].as_array().unwrap().iter().map(decl_from_json).collect(),
        })
        .collect()
}

pub fn to_json(mods: &[Module]) -> Value {
    json!(mods
        .iter()
        .map(|m| json!({
            "dir": m.dir, "name": m.name, "ipos": m.ipos,
            "imports": m.imports.iter().map(|(d, n)| json!({"dir": d, "name": n})).collect::<Vec<_>>(),
            "decls": m.decls.iter().map(|d| json!({"n": d.n, "k": d.k, "pub": d.public, "body": d.body, "ext": d.ext})).collect::<Vec<_>>(),
        }))
        .collect::<Vec<_>>())
}

fn value_of(name: &str) -> String {
    let digits: String = name.chars().filter(|c| c.is_ascii_digit()).collect();
    if digits.is_empty() { "7".to_string() } else { digits }
}

pub fn decl_line(d: &Decl) -> String {
    let p = format!("{}{}", if d.public { "pub " } else { "" }, if d.ext { "extern " } else { "" });
    match d.k.as_str() {
        "fn" if !d.body => format!("{p}fn {}() -> i32;", d.n),
        "fn" => format!("{p}fn {}() -> i32 {{ return: {} }}", d.n, value_of(&d.n)),
        "const" => format!("{p}const {}: i32 = {};", d.n, value_of(&d.n)),
        // every second structure is a word
        "struct" if value_of(&d.n).bytes().map(|b| (b - b'0') as usize).sum::<usize>() % 2 == 1 => format!("{p}word32 {} {{ v: i32, }}", d.n),
        "struct" => format!("{p}struct {} {{ v: i32, }}", d.n),
        other => panic!("kind {other}"),
    }
}

pub fn probe_line(module: usize, d: &Decl) -> String {
    match d.k.as_str() {
        "fn" => format!("fn p{module}_{}() -> i32 {{ return: {}() }}", d.n, d.n),
        "const" => format!("fn p{module}_{}() -> i32 {{ return: {} }}", d.n, d.n),
        _ => format!("fn p{module}_{}(a: &{}) -> i32 {{ return: a.v }}", d.n, d.n),
    }
}

pub fn render(mods: &[Module], with_probes: bool) -> Rendered {
    // one probe per declared NAME of the program
    let mut all: Vec<Decl> = Vec::new();
    for d in mods.iter().flat_map(|m| m.decls.iter()) {
        if !all.iter().any(|x| x.n == d.n) {
            all.push(d.clone());
        }
    }
    let mut files = Vec::new();
    let mut probe_lines = Vec::new();
    let mut import_lines = Vec::new();
    for (i, m) in mods.iter().enumerate() {
        let mut src = String::new();
        let mut line = 0;
        let mut il = Vec::new();
        // the import lines follow the first `ipos` own declarations (the rule does not care where they stand)
        for (x, d) in m.decls.iter().enumerate() {
            if x == m.ipos {
                for (d, n) in &m.imports {
                    src.push_str(&format!("import \"{}\";\n", path_text(d, n)));
                    line += 1;
                    il.push(line);
                }
            }
            src.push_str(&decl_line(d));
            src.push('\n');
            line += 1;
        }
        if m.ipos >= m.decls.len() {
            for (d, n) in &m.imports {
                src.push_str(&format!("import \"{}\";\n", path_text(d, n)));
                line += 1;
                il.push(line);
            }
        }
        let mut pl = Vec::new();
        if with_probes {
            for d in &all {
                src.push_str(&probe_line(i + 1, d));
                src.push('\n');
                line += 1;
                pl.push((line, d.n.clone()));
            }
        }
        src.push_str("// end of module\n");
        files.push((path_text(&m.dir, &m.name), src));
        probe_lines.push(pl);
        import_lines.push(il);
    }
    Rendered { files, probe_lines, import_lines }
}

/// Compile the set with probes and report, per module, the declarations after expansion (without the
/// probes) and the diagnostics of every probe.
pub fn observe(mods: &[Module], record: bool) -> (Value, Vec<String>) {
    let r = render(mods, true);
    let o = driver::run_multi(&r.files, driver::Upto::Resolve, record, true);
    let mut out = json!({"ok": o.ok, "stage": o.stage});
    if let Some(p) = &o.panic {
        out["panic"] = json!(p);
    }
    let mut ms = Vec::new();
    for (i, m) in o.modules.iter().enumerate() {
        let decls: Vec<Value> = m
            .decls
            .iter()
            .zip(m.ext.iter())
            .filter(|((k, n, _, _), _)| !(k == "fn" && n.starts_with('p') && n.contains('_')) && k != "poison" && k != "import")
            .map(|((k, n, p, b), e)| json!({"n": n, "k": k, "pub": p, "body": b, "ext": e}))
            .collect();
        let mut probes: Vec<Value> = r.probe_lines[i].iter().map(|(_, name)| json!({"n": name, "codes": []})).collect();
        let mut other = Vec::new();
        for d in &m.diags {
            match r.probe_lines[i].iter().position(|(l, _)| *l == d.line) {
                Some(x) => probes[x]["codes"].as_array_mut().unwrap().push(json!(d.code)),
                None => {
                    let imp = r.import_lines[i].iter().position(|l| *l == d.line);
                    other.push(json!({"code": d.code, "line": d.line, "import": imp.map(|x| x + 1).unwrap_or(0)}));
                }
            }
        }
        ms.push(json!({"path": m.path, "decls": decls, "probes": probes, "other": other, "reached": m.reached}));
    }
    out["modules"] = json!(ms);
    (out, o.events)
}

// ---------------------------------------------------------------------------------------------
// random larger sets for trace validation
// ---------------------------------------------------------------------------------------------
pub fn random(rng: &mut Rng) -> Vec<Module> {
    let n = rng.range(2, 5);
    let kinds = ["fn", "const", "struct"];
    let mut mods: Vec<Module> = (1..=n)
        .map(|i| Module {
            dir: if rng.chance(30) { vec!["d".to_string()] } else { Vec::new() },
            name: format!("m{i}"),
            imports: Vec::new(),
            decls: Vec::new(),
            ipos: 0,
        })
        .collect();
    // Dimension audit (drawn from a generator of its own, so that the draws below are what they were): a sixth
    // module and a second sub-directory; the same FILE NAME in different directories; heads and `extern`.
    let mut extra = Rng::new(rng.next(), 0xC12A_5EED);
    let n = if extra.chance(25) {
        mods.push(Module { dir: vec!["e".to_string()], name: format!("m{}", n + 1), imports: Vec::new(), decls: Vec::new(), ipos: 0 });
        n + 1
    } else {
        n
    };
    if extra.chance(40) {
        for i in 1..n {
            // module i takes the file name of an earlier module that lives in another directory
            if let Some(j) = (0..i).find(|j| mods[*j].dir != mods[i].dir && !mods.iter().any(|m| m.dir == mods[i].dir && m.name == mods[*j].name)) {
                if extra.chance(50) {
                    mods[i].name = mods[j].name.clone();
                }
            }
        }
    }
    for i in 0..n {
        let nd = rng.range(0, 3);
        for j in 1..=nd {
            let k = kinds[rng.below(3)];
            let body = k != "fn" || !extra.chance(30);
            mods[i].decls.push(Decl { n: format!("{}{}{}", if body { &k[0..1] } else { "h" }, i + 1, j), k: k.to_string(), public: rng.chance(55),
                                      body, ext: extra.chance(25) });
        }
    }
    let density = rng.range(20, 60);
    for i in 0..n {
        for j in 0..n {
            if !rng.chance(density) && !(i == j && rng.chance(5)) {
                continue;
            }
            // written either as the full path of the target or relative to the includer's directory
            let target_dir = mods[j].dir.clone();
            let relative_ok = target_dir.len() >= mods[i].dir.len() && target_dir[..mods[i].dir.len()] == mods[i].dir[..];
            let imp = if relative_ok && rng.chance(50) {
                (target_dir[mods[i].dir.len()..].to_vec(), mods[j].name.clone())
            } else {
                (target_dir, mods[j].name.clone())
            };
            // A relative spelling that is also the exact path of ANOTHER file is ambiguous (the documentation does not
            // say which one is meant): write the full path instead.
            let ambiguous = mods.iter().enumerate().any(|(x, m)| x != j && m.dir == imp.0 && m.name == imp.1);
            let imp = if ambiguous { (mods[j].dir.clone(), mods[j].name.clone()) } else { imp };
            // ... and so is a full path that, read relative to the includer's directory, names another file: not written
            let mut rel_dir = mods[i].dir.clone();
            rel_dir.extend(imp.0.iter().cloned());
            let exact = mods.iter().position(|m| m.dir == imp.0 && m.name == imp.1);
            let rel = mods.iter().position(|m| m.dir == rel_dir && m.name == imp.1);
            if exact.is_some() && rel.is_some() && exact != rel {
                continue;
            }
            mods[i].imports.push(imp.clone());
            // the same import written twice
            if extra.chance(12) {
                mods[i].imports.push(imp);
            }
        }
        if rng.chance(4) {
            mods[i].imports.push((Vec::new(), "nowhere".to_string()));
        }
    }
    // where the import lines stand: drawn last, so that the sets of a seed stay what they were
    for i in 0..n {
        if rng.chance(50) {
            mods[i].ipos = rng.range(0, mods[i].decls.len());
        }
    }
    mods
}

/// What the real parser saw: the module set projected from the parsed files.
pub fn project(files: &[(String, String)]) -> Result<Vec<Module>, String> {
    use penne::alpha::common::Declaration;
    let mut out = Vec::new();
    for (path, source) in files {
        let decls = pvh::alpha::parse(source, path);
        let (dir, name) = split_path(path);
        let mut m = Module { dir, name, imports: Vec::new(), decls: Vec::new(), ipos: 0 };
        for d in &decls {
            match d {
                Declaration::Import { filename, .. } => {
                    let (d, n) = split_path(filename);
                    if m.imports.is_empty() {
                        m.ipos = m.decls.len();
                    }
                    m.imports.push((d, n));
                }
                Declaration::Poison(_) => return Err(format!("parse error in {path}")),
                other => {
                    let (k, n, p, b) = driver::project_decl(other);
                    if k == "fn" && n.starts_with('p') && n.contains('_') {
                        continue;
                    }
                    m.decls.push(Decl { n, k, public: p, body: b, ext: driver::is_extern(other) });
                }
            }
        }
        out.push(m);
    }
    Ok(out)
}

fn split_path(path: &str) -> (Vec<String>, String) {
    let mut parts: Vec<String> = path.split('/').map(|x| x.to_string()).collect();
    let file = parts.pop().unwrap_or_default();
    (parts, file.trim_end_matches(".pn").to_string())
}

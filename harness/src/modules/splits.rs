//! C12: generated programs partitioned into 2-4 files with the corresponding pub / import
//! declarations (every file order), and histories of unrelated modules through one Compiler.

use super::driver;
use super::perms::Program;
use pvh::alpha;
use pvh::rng::Rng;
use serde_json::{Value, json};

pub struct Partition {
    pub files: Vec<(String, String)>,
    pub module_of: Vec<usize>,
    pub public: Vec<bool>,
    pub imports: Vec<Vec<usize>>,
}

/// Partition the declarations of `p` into k modules.  A declaration becomes `pub` iff another module
/// needs it; a module imports every module that holds something it needs.  "Needs" follows the
/// definitions of constants, structures and words (they travel with the import), not function bodies.
pub fn partition(p: &Program, k: usize, rng: &mut Rng, closed: bool) -> Partition {
    let n = p.len();
    let mut module_of: Vec<usize> = (0..n).map(|_| rng.below(k)).collect();
    for m in 0..k.min(n) {
        // every module holds at least one declaration
        if !module_of.contains(&m) {
            let victim = rng.below(n);
            module_of[victim] = m;
        }
    }
    let refs: Vec<Vec<usize>> = (1..=n).map(|a| p.refs(a)).collect();
    let mut public = vec![false; n];
    let mut imports: Vec<Vec<usize>> = vec![Vec::new(); k];
    // minimal: what a programmer writes -- pub what other files mention, import the files mentioned
    // (following the definitions of imported constants / structures, which travel with the import).
    // closed: additionally everything that the definition of ANY pub constant / structure of an
    // imported file mentions (the importer re-analyses all of them), to a fixpoint.
    loop {
        let mut changed = false;
        for m in 0..k {
            let mut need: Vec<usize> = Vec::new();
            let mut stack: Vec<usize> = (1..=n).filter(|a| module_of[a - 1] == m).flat_map(|a| refs[a - 1].clone()).collect();
            if closed {
                for b in 1..=n {
                    if public[b - 1] && p.is_container(b) && imports[m].contains(&module_of[b - 1]) {
                        stack.extend(refs[b - 1].iter().copied());
                    }
                }
            }
            while let Some(b) = stack.pop() {
                if module_of[b - 1] == m || need.contains(&b) {
                    continue;
                }
                need.push(b);
                if p.is_container(b) {
                    stack.extend(refs[b - 1].iter().copied());
                }
            }
            for b in need {
                if !public[b - 1] {
                    public[b - 1] = true;
                    changed = true;
                }
                if !imports[m].contains(&module_of[b - 1]) {
                    imports[m].push(module_of[b - 1]);
                    changed = true;
                }
            }
            imports[m].sort();
        }
        if !changed || !closed {
            break;
        }
    }
    let mut files = Vec::new();
    for m in 0..k {
        let mut src = String::new();
        // The import lines stand after the first `ipos` own declarations: the documentation does not say where
        // imports have to stand (Modules.tla: ipos).  Derived from the partition, not drawn, so that the programs of a
        // seed stay what they were.
        let own = (1..=n).filter(|a| module_of[a - 1] == m).count();
        let ipos = if (m + n + k + imports[m].len()) % 2 == 0 { 0 } else { (m * 7 + n + 3 * imports[m].len()) % (own + 1) };
        let mut import_text = String::new();
        for j in &imports[m] {
            import_text.push_str(&format!("import \"p{}.pn\";\n", j + 1));
        }
        import_text.push('\n');
        let mut written = 0;
        for a in 1..=n {
            if module_of[a - 1] != m {
                continue;
            }
            if written == ipos {
                src.push_str(&import_text);
            }
            written += 1;
            if public[a - 1] {
                src.push_str("pub ");
            }
            src.push_str(&p.decl_text(a));
            src.push('\n');
        }
        if ipos >= own {
            src.push_str(&import_text);
        }
        files.push((format!("p{}.pn", m + 1), src));
    }
    Partition { files, module_of, public, imports }
}

fn behaviour(ok: bool, ir: Option<&String>, panic: Option<&String>, diags: Value, lints: Value) -> Value {
    let mut v = json!({"ok": ok, "out": "", "exit": -1, "diags": diags, "lints": lints, "died": ""});
    if let Some(p) = panic {
        v["panic"] = json!(p);
        v["ok"] = json!(false);
    }
    if let Some(ir) = ir {
        match alpha::run_lli(ir, 10) {
            Ok((out, code)) => {
                v["out"] = json!(out);
                v["exit"] = json!(code);
            }
            Err(e) => {
                v["out"] = json!(format!("<lli: {e}>"));
                v["exit"] = json!(-2);
            }
        }
    }
    v
}

fn multi_behaviour(files: &[(String, String)]) -> Value {
    let o = driver::run_multi(files, driver::Upto::Ir, false, false);
    let diags: Vec<Value> = o.modules.iter().flat_map(|m| m.diags.iter().map(|d| json!([d.code, d.line, d.file]))).collect();
    let lints: Vec<Value> = o.modules.iter().flat_map(|m| m.lints.iter().map(|d| json!([d.code, d.line, d.file]))).collect();
    behaviour(o.ok, o.ir.as_ref(), o.panic.as_ref(), json!(diags), json!(lints))
}

fn permutations(k: usize) -> Vec<Vec<usize>> {
    fn go(cur: &mut Vec<usize>, used: &mut Vec<bool>, out: &mut Vec<Vec<usize>>) {
        if cur.len() == used.len() {
            out.push(cur.clone());
            return;
        }
        for i in 0..used.len() {
            if !used[i] {
                used[i] = true;
                cur.push(i);
                go(cur, used, out);
                cur.pop();
                used[i] = false;
            }
        }
    }
    let mut out = Vec::new();
    go(&mut Vec::new(), &mut vec![false; k], &mut out);
    out
}

pub struct Split {
    pub program: Program,
    pub part: Partition,
    pub k: usize,
}

pub fn make_split(seed: u64, i: usize, closed: bool) -> Split {
    let mut rng = Rng::new(seed, 0xC12B_0000 + i as u64);
    let program = Program::generate(seed ^ 0x5117, i);
    let k = rng.range(2, 4).min(program.len());
    let part = partition(&program, k, &mut rng, closed);
    Split { program, part, k }
}

/// One file order of one split (run in its own process: the compile can abort inside LLVM).
pub fn split_run(seed: u64, i: usize, closed: bool, order: &[usize]) -> Value {
    let sp = make_split(seed, i, closed);
    let files: Vec<(String, String)> = order.iter().map(|j| sp.part.files[*j - 1].clone()).collect();
    let mut b = multi_behaviour(&files);
    b["order"] = json!(order);
    b
}

/// One split record: the module structure, the single-file behaviour and the behaviour of every file
/// order (`run_order` runs one order, normally in a child process).
pub fn split_record(seed: u64, i: usize, closed: bool, verbose: bool, run_order: &dyn Fn(&[usize]) -> Value) -> Value {
    let sp = make_split(seed, i, closed);
    let p = &sp.program;
    let n = p.len();
    let identity: Vec<usize> = (1..=n).collect();
    let single_src = p.render(&identity);
    let o = alpha::run_single(&single_src, "single.pn", alpha::Upto::Ir, false);
    let single = behaviour(o.ok, o.ir.as_ref(), o.panic.as_ref(),
        json!(o.diags.iter().map(|d| json!([d.code, d.line])).collect::<Vec<_>>()), json!([]));
    if verbose {
        for (path, src) in &sp.part.files {
            println!("---- {path}\n{src}");
        }
        println!("single: {single}");
    }
    let mut runs = Vec::new();
    for order in permutations(sp.k) {
        let order1: Vec<usize> = order.iter().map(|j| j + 1).collect();
        let b = run_order(&order1);
        if verbose {
            println!("order {order1:?}: {b}");
        }
        runs.push(b);
    }
    let decls: Vec<Value> = (1..=n)
        .map(|a| json!({"n": p.name(a), "m": sp.part.module_of[a - 1] + 1, "pub": sp.part.public[a - 1],
                        "cont": p.is_container(a), "k": p.kind(a),
                        "refs": p.refs(a).iter().map(|b| p.name(*b)).collect::<Vec<_>>()}))
        .collect();
    json!({"ev": "split", "prog": i, "seed": seed, "nmods": sp.k, "closed": closed,
           "decls": decls, "imports": sp.part.imports.iter().map(|v| v.iter().map(|j| j + 1).collect::<Vec<_>>()).collect::<Vec<_>>(),
           "single": single, "runs": runs})
}

/// Names of structures / words that both modules of history i declare (with layouts of their own).
pub fn hist_shared_structs(seed: u64, i: usize) -> Vec<String> {
    if i % 2 == 1 {
        return Vec::new();
    }
    let a = Program::generate(seed ^ 0x4157, 2 * i).without_main();
    let b = Program::generate(seed ^ 0x4157, 2 * i + 1);
    let names_a: Vec<String> = (1..=a.len()).filter(|x| a.kind(*x) == "struct").map(|x| a.name(x)).collect();
    (1..=b.len()).filter(|x| b.kind(*x) == "struct").map(|x| b.name(x)).filter(|n| names_a.contains(n)).collect()
}

/// One history record: module B alone, B after an unrelated module A (same Compiler), A and B linked.
pub fn hist_record(seed: u64, i: usize, verbose: bool) -> Value {
    let a = Program::generate(seed ^ 0x4157, 2 * i).without_main();
    let b = Program::generate(seed ^ 0x4157, 2 * i + 1);
    let ida: Vec<usize> = (1..=a.len()).collect();
    let idb: Vec<usize> = (1..=b.len()).collect();
    // Structures of the same name and different layout in two modules of one Compiler are a known finding of its own
    // (LLVM aborts); in every second history the structures and words of A get names of their own, so that the other
    // private names the two modules share (functions, constants) are observed as well.
    let own_names: Vec<(String, String)> = if i % 2 == 1 {
        ida.iter().filter(|x| a.kind(**x) == "struct").map(|x| (a.name(*x), format!("A{}", a.name(*x)))).collect()
    } else {
        Vec::new()
    };
    let fa = ("a.pn".to_string(), a.render_shared(&ida, &own_names));
    let fb = ("b.pn".to_string(), b.render(&idb));
    if verbose {
        println!("---- a.pn\n{}\n---- b.pn\n{}", fa.1, fb.1);
    }
    let module_b = |o: &driver::MultiOutcome| -> Value {
        let m = o.modules.iter().find(|m| m.path == "b.pn").expect("module b");
        behaviour(m.ok, m.ir.as_ref(), o.panic.as_ref(),
            json!(m.diags.iter().map(|d| json!([d.code, d.line])).collect::<Vec<_>>()),
            json!(m.lints.iter().map(|d| json!([d.code, d.line])).collect::<Vec<_>>()))
    };
    let o1 = driver::run_multi(&[fb.clone()], driver::Upto::Ir, false, false);
    let alone = module_b(&o1);
    let o2 = driver::run_multi(&[fa.clone(), fb.clone()], driver::Upto::Ir, false, false);
    let after = module_b(&o2);
    let linked = behaviour(o2.ok, o2.ir.as_ref(), o2.panic.as_ref(), json!([]), json!([]));
    if verbose {
        println!("alone: {alone}\nafter: {after}\nlinked: {linked}");
    }
    let same_ir = o1.modules[0].ir == o2.modules.iter().find(|m| m.path == "b.pn").and_then(|m| m.ir.clone());
    json!({"ev": "hist", "prog": i, "seed": seed, "alone": alone, "after": after, "linked": linked, "same_ir_text": same_ir,
           "shared_structs": hist_shared_structs(seed, i)})
}

//! C12: generated programs partitioned into 2-4 files with the corresponding pub / import
//! declarations (every file order), and histories of unrelated modules through one Compiler.

use super::driver;
use super::perms::Program;
use pvh::alpha;
use pvh::rng::Rng;
use serde_json::{Value, json};

pub struct Partition {
    pub files: Vec<(String, String)>,
    pub module_of: Vec<usize>,
    pub public: Vec<bool>,
    pub imports: Vec<Vec<usize>>,
    /// per declaration: its name in the source text of its file
    pub src_names: Vec<String>,
}

/// Dimension audit: the extended splits (every third program).  Default = the splits as they were.
#[derive(Default, Clone)]
pub struct Ext {
    /// declarations are dealt out in contiguous blocks (generation order is a topological order, so the import
    /// relation of 4-6 modules consists of chains and diamonds) instead of at random
    pub blocks: bool,
    /// module m is the file `d<m>/p.pn` (one file NAME in several directories), the first one `main.pn`
    pub dirs: bool,
    /// the import lines of this module are written twice
    pub twice: Option<usize>,
    /// private functions (and, in closed splits, private constants / structures) are renamed by their rank within the
    /// file (`pf1`, `PC1`, `PS1`, ...), so that every file has private items of the SAME names
    pub rename_private: bool,
}

fn file_name(ext: &Ext, m: usize) -> String {
    if !ext.dirs {
        format!("p{}.pn", m + 1)
    } else if m == 0 {
        "main.pn".to_string()
    } else {
        format!("d{m}/p.pn")
    }
}

/// replace whole identifiers
fn rename_idents(text: &str, map: &[(String, String)]) -> String {
    let mut out = String::with_capacity(text.len());
    let mut cur = String::new();
    let flush = |cur: &mut String, out: &mut String| {
        if !cur.is_empty() {
            match map.iter().find(|(from, _)| from == cur) {
                Some((_, to)) => out.push_str(to),
                None => out.push_str(cur),
            }
            cur.clear();
        }
    };
    // (not inside string literals: what the program prints must stay what the single file prints)
    let mut in_string = false;
    for c in text.chars() {
        if c == '"' {
            flush(&mut cur, &mut out);
            in_string = !in_string;
            out.push(c);
        } else if in_string {
            out.push(c);
        } else if c.is_ascii_alphanumeric() || c == '_' {
            cur.push(c);
        } else {
            flush(&mut cur, &mut out);
            out.push(c);
        }
    }
    flush(&mut cur, &mut out);
    out
}

/// Partition the declarations of `p` into k modules.  A declaration becomes `pub` iff another module
/// needs it; a module imports every module that holds something it needs.  "Needs" follows the
/// definitions of constants, structures and words (they travel with the import), not function bodies.
pub fn partition(p: &Program, k: usize, rng: &mut Rng, closed: bool) -> Partition {
    partition_ext(p, k, rng, closed, &Ext::default())
}

pub fn partition_ext(p: &Program, k: usize, rng: &mut Rng, closed: bool, ext: &Ext) -> Partition {
    let n = p.len();
    let mut module_of: Vec<usize> = (0..n).map(|_| rng.below(k)).collect();
    if ext.blocks {
        // blocks of the generation order, the LAST block in the first file (main.pn holds `main`)
        for a in 0..n {
            module_of[a] = (k - 1) - (a * k / n).min(k - 1);
        }
    }
    for m in 0..k.min(n) {
        // every module holds at least one declaration
        if !module_of.contains(&m) {
            let victim = rng.below(n);
            module_of[victim] = m;
        }
    }
    let refs: Vec<Vec<usize>> = (1..=n).map(|a| p.refs(a)).collect();
    // what travels with an import of declaration b: the definition of a constant / structure, the SIGNATURE of a function
    let travels: Vec<Vec<usize>> = (1..=n).map(|b| if p.is_container(b) { refs[b - 1].clone() } else { p.sig_refs(b) }).collect();
    let mut public = vec![false; n];
    let mut imports: Vec<Vec<usize>> = vec![Vec::new(); k];
    // minimal: what a programmer writes -- pub what other files mention, import the files mentioned
    // (following the definitions of imported constants / structures, which travel with the import).
    // closed: additionally everything that the definition of ANY pub constant / structure of an
    // imported file mentions (the importer re-analyses all of them), to a fixpoint.
    loop {
        let mut changed = false;
        for m in 0..k {
            let mut need: Vec<usize> = Vec::new();
            let mut stack: Vec<usize> = (1..=n).filter(|a| module_of[a - 1] == m).flat_map(|a| refs[a - 1].clone()).collect();
            if closed {
                for b in 1..=n {
                    if public[b - 1] && imports[m].contains(&module_of[b - 1]) {
                        stack.extend(travels[b - 1].iter().copied());
                    }
                }
            }
            while let Some(b) = stack.pop() {
                if module_of[b - 1] == m || need.contains(&b) {
                    continue;
                }
                need.push(b);
                stack.extend(travels[b - 1].iter().copied());
            }
            for b in need {
                if !public[b - 1] {
                    public[b - 1] = true;
                    changed = true;
                }
                if !imports[m].contains(&module_of[b - 1]) {
                    imports[m].push(module_of[b - 1]);
                    changed = true;
                }
            }
            imports[m].sort();
        }
        if !changed || !closed {
            break;
        }
    }
    let mut files = Vec::new();
    // the name every declaration has in the source text of its file (private items of extended splits are renamed)
    let mut src_names: Vec<(usize, String)> = Vec::new();
    for m in 0..k {
        let mut src = String::new();
        // The import lines stand after the first `ipos` own declarations: the documentation does not say where
        // imports have to stand (Modules.tla: ipos).  Derived from the partition, not drawn, so that the programs of a
        // seed stay what they were.
        let own = (1..=n).filter(|a| module_of[a - 1] == m).count();
        let ipos = if (m + n + k + imports[m].len()) % 2 == 0 { 0 } else { (m * 7 + n + 3 * imports[m].len()) % (own + 1) };
        let mut import_text = String::new();
        for j in &imports[m] {
            import_text.push_str(&format!("import \"{}\";\n", file_name(ext, *j)));
        }
        if ext.twice == Some(m) {
            import_text = format!("{import_text}{import_text}");
        }
        import_text.push('\n');
        let mut written = 0;
        for a in 1..=n {
            if module_of[a - 1] != m {
                continue;
            }
            if written == ipos {
                src.push_str(&import_text);
            }
            written += 1;
            if public[a - 1] {
                src.push_str("pub ");
            }
            src.push_str(&p.decl_text(a));
            src.push('\n');
        }
        if ipos >= own {
            src.push_str(&import_text);
        }
        src_names.extend((1..=n).filter(|a| module_of[a - 1] == m).map(|a| (a, p.name(a))));
        if ext.rename_private {
            // Private items are mentioned in their own file only.  (In a minimal split the definition of a public
            // constant / structure may mention a private one, which the importer re-analyses -- a known finding --
            // so there only functions are renamed.)
            let mut map = Vec::new();
            let (mut nf, mut nc, mut ns) = (0, 0, 0);
            for a in 1..=n {
                if module_of[a - 1] != m || public[a - 1] || p.name(a) == "main" {
                    continue;
                }
                match p.kind(a) {
                    "fn" => {
                        nf += 1;
                        map.push((p.name(a), format!("pf{nf}")));
                    }
                    "const" if closed => {
                        nc += 1;
                        map.push((p.name(a), format!("PC{nc}")));
                    }
                    "struct" if closed => {
                        ns += 1;
                        map.push((p.name(a), format!("PS{ns}")));
                    }
                    _ => (),
                }
            }
            src = rename_idents(&src, &map);
            for (a, nm) in src_names.iter_mut() {
                if let Some((_, to)) = map.iter().find(|(from, _)| from == nm) {
                    if module_of[*a - 1] == m {
                        *nm = to.clone();
                    }
                }
            }
        }
        files.push((file_name(ext, m), src));
    }
    src_names.sort();
    Partition { files, module_of, public, imports, src_names: src_names.into_iter().map(|(_, s)| s).collect() }
}

fn behaviour(ok: bool, ir: Option<&String>, panic: Option<&String>, diags: Value, lints: Value) -> Value {
    let mut v = json!({"ok": ok, "out": "", "exit": -1, "diags": diags, "lints": lints, "died": ""});
    if let Some(p) = panic {
        v["panic"] = json!(p);
        v["ok"] = json!(false);
    }
    if let Some(ir) = ir {
        match alpha::run_lli(ir, 10) {
            Ok((out, code)) => {
                v["out"] = json!(out);
                v["exit"] = json!(code);
            }
            Err(e) => {
                v["out"] = json!(format!("<lli: {e}>"));
                v["exit"] = json!(-2);
            }
        }
    }
    v
}

fn multi_behaviour(files: &[(String, String)]) -> Value {
    let o = driver::run_multi(files, driver::Upto::Ir, false, false);
    let diags: Vec<Value> = o.modules.iter().flat_map(|m| m.diags.iter().map(|d| json!([d.code, d.line, d.file]))).collect();
    let lints: Vec<Value> = o.modules.iter().flat_map(|m| m.lints.iter().map(|d| json!([d.code, d.line, d.file]))).collect();
    behaviour(o.ok, o.ir.as_ref(), o.panic.as_ref(), json!(diags), json!(lints))
}

fn permutations(k: usize) -> Vec<Vec<usize>> {
    fn go(cur: &mut Vec<usize>, used: &mut Vec<bool>, out: &mut Vec<Vec<usize>>) {
        if cur.len() == used.len() {
            out.push(cur.clone());
            return;
        }
        for i in 0..used.len() {
            if !used[i] {
                used[i] = true;
                cur.push(i);
                go(cur, used, out);
                cur.pop();
                used[i] = false;
            }
        }
    }
    let mut out = Vec::new();
    go(&mut Vec::new(), &mut vec![false; k], &mut out);
    out
}

pub struct Split {
    pub program: Program,
    pub part: Partition,
    pub k: usize,
    /// the file orders that are run
    pub orders: Vec<Vec<usize>>,
    /// an unrelated module (no `main`, nothing of it is imported) that is compiled along, if any
    pub unrelated: Option<Program>,
}

pub fn make_split(seed: u64, i: usize, closed: bool) -> Split {
    let mut rng = Rng::new(seed, 0xC12B_0000 + i as u64);
    let program = Program::generate(seed ^ 0x5117, i);
    if i % 3 != 2 {
        let k = rng.range(2, 4).min(program.len());
        let part = partition(&program, k, &mut rng, closed);
        return Split { program, part, k, orders: permutations(k), unrelated: None };
    }
    // Dimension audit: every third split is an extended one (generator of its own): 4-6 files in chains and diamonds, one
    // file name in several directories, an import written twice, private items of equal names in every file, an
    // unrelated module compiled along; a sample of at most 10 file orders.
    let mut x = Rng::new(seed, 0xC12B_8000 + i as u64);
    let k = x.range(4, 6).min(program.len());
    let ext = Ext { blocks: x.chance(70), dirs: x.chance(50), twice: if x.chance(50) { Some(x.below(k)) } else { None }, rename_private: x.chance(70) };
    let mut part = partition_ext(&program, k, &mut x, closed, &ext);
    let unrelated = if x.chance(50) { Some(Program::generate(seed ^ 0x7117, i).without_main()) } else { None };
    let mut kk = k;
    if let Some(u) = &unrelated {
        // structures and words get names of their own (same-named structures of different layout in one Compiler are a
        // finding of their own); functions and constants keep the names they share with the program
        let ids: Vec<usize> = (1..=u.len()).collect();
        let own: Vec<(String, String)> = ids.iter().filter(|a| u.kind(**a) == "struct").map(|a| (u.name(*a), format!("U{}", u.name(*a)))).collect();
        part.files.push((if ext.dirs { "du/p.pn".to_string() } else { "u.pn".to_string() }, u.render_shared(&ids, &own)));
        kk += 1;
    }
    let mut orders: Vec<Vec<usize>> = Vec::new();
    let id: Vec<usize> = (0..kk).collect();
    orders.push(id.clone());
    orders.push(id.iter().rev().copied().collect());
    for r in 1..kk {
        let mut o = id.clone();
        o.rotate_left(r);
        orders.push(o);
    }
    while orders.len() < 10 {
        let mut o = id.clone();
        for j in (1..kk).rev() {
            o.swap(j, x.below(j + 1));
        }
        if !orders.contains(&o) {
            orders.push(o);
        }
    }
    orders.truncate(10);
    Split { program, part, k: kk, orders, unrelated }
}

/// One file order of one split (run in its own process: the compile can abort inside LLVM).
pub fn split_run(seed: u64, i: usize, closed: bool, order: &[usize]) -> Value {
    let sp = make_split(seed, i, closed);
    let files: Vec<(String, String)> = order.iter().map(|j| sp.part.files[*j - 1].clone()).collect();
    let mut b = multi_behaviour(&files);
    b["order"] = json!(order);
    b
}

/// One split record: the module structure, the single-file behaviour and the behaviour of every file
/// order (`run_order` runs one order, normally in a child process).
pub fn split_record(seed: u64, i: usize, closed: bool, verbose: bool, run_order: &dyn Fn(&[usize]) -> Value) -> Value {
    let sp = make_split(seed, i, closed);
    let p = &sp.program;
    let n = p.len();
    let identity: Vec<usize> = (1..=n).collect();
    let single_src = p.render(&identity);
    let o = alpha::run_single(&single_src, "single.pn", alpha::Upto::Ir, false);
    let single = behaviour(o.ok, o.ir.as_ref(), o.panic.as_ref(),
        json!(o.diags.iter().map(|d| json!([d.code, d.line])).collect::<Vec<_>>()), json!([]));
    if verbose {
        for (path, src) in &sp.part.files {
            println!("---- {path}\n{src}");
        }
        println!("single: {single}");
    }
    let mut runs = Vec::new();
    for order in sp.orders.clone() {
        let order1: Vec<usize> = order.iter().map(|j| j + 1).collect();
        let b = run_order(&order1);
        if verbose {
            println!("order {order1:?}: {b}");
        }
        runs.push(b);
    }
    let mut decls: Vec<Value> = (1..=n)
        .map(|a| json!({"n": p.name(a), "m": sp.part.module_of[a - 1] + 1, "pub": sp.part.public[a - 1],
                        "cont": p.is_container(a), "k": p.kind(a), "src": sp.part.src_names[a - 1],
                        "sig": p.sig_refs(a).iter().map(|b| p.name(*b)).collect::<Vec<_>>(),
                        "refs": p.refs(a).iter().map(|b| p.name(*b)).collect::<Vec<_>>()}))
        .collect();
    let mut imports: Vec<Vec<usize>> = sp.part.imports.iter().map(|v| v.iter().map(|j| j + 1).collect::<Vec<_>>()).collect();
    if let Some(u) = &sp.unrelated {
        // the unrelated module: private declarations that mention each other only (names made unique for the record)
        for a in 1..=u.len() {
            decls.push(json!({"n": format!("U_{}", u.name(a)), "m": sp.k, "pub": false, "cont": u.is_container(a), "k": u.kind(a),
                              "src": if u.kind(a) == "struct" { format!("U{}", u.name(a)) } else { u.name(a) }, "sig": [],
                              "refs": u.refs(a).iter().map(|b| format!("U_{}", u.name(*b))).collect::<Vec<_>>()}));
        }
        imports.push(Vec::new());
    }
    json!({"ev": "split", "prog": i, "seed": seed, "nmods": sp.k, "closed": closed,
           "decls": decls, "imports": imports, "extended": i % 3 == 2,
           "single": single, "runs": runs})
}

/// Names of structures / words that both modules of history i declare (with layouts of their own).
pub fn hist_shared_structs(seed: u64, i: usize) -> Vec<String> {
    if i % 2 == 1 {
        return Vec::new();
    }
    let a = Program::generate(seed ^ 0x4157, 2 * i).without_main();
    let b = Program::generate(seed ^ 0x4157, 2 * i + 1);
    let names_a: Vec<String> = (1..=a.len()).filter(|x| a.kind(*x) == "struct").map(|x| a.name(x)).collect();
    (1..=b.len()).filter(|x| b.kind(*x) == "struct").map(|x| b.name(x)).filter(|n| names_a.contains(n)).collect()
}

/// One history record: module B alone, B after an unrelated module A (same Compiler), A and B linked.
pub fn hist_record(seed: u64, i: usize, verbose: bool) -> Value {
    let a = Program::generate(seed ^ 0x4157, 2 * i).without_main();
    let b = Program::generate(seed ^ 0x4157, 2 * i + 1);
    let ida: Vec<usize> = (1..=a.len()).collect();
    let idb: Vec<usize> = (1..=b.len()).collect();
    // Structures of the same name and different layout in two modules of one Compiler are a known finding of its own
    // (LLVM aborts); in every second history the structures and words of A get names of their own, so that the other
    // private names the two modules share (functions, constants) are observed as well.
    let own_names: Vec<(String, String)> = if i % 2 == 1 {
        ida.iter().filter(|x| a.kind(**x) == "struct").map(|x| (a.name(*x), format!("A{}", a.name(*x)))).collect()
    } else {
        Vec::new()
    };
    let fa = ("a.pn".to_string(), a.render_shared(&ida, &own_names));
    let mut fb = ("b.pn".to_string(), b.render(&idb));
    // Dimension audit.  i = 3 mod 8: module B is FAULTY (its diagnostics must be the same alone and after A);
    // i = 6 mod 8: TWO unrelated modules are compiled before B (state that survives more than one add_module).
    if i % 8 == 3 {
        fb.1.push_str("fn faulty(x: i32) -> i32\n{\n\treturn: x + NOT_DECLARED_ANYWHERE\n}\n");
    }
    let mut before = vec![fa.clone()];
    if i % 8 == 6 {
        let a2 = Program::generate(seed ^ 0x4157, 2 * i + 100_001).without_main();
        let ida2: Vec<usize> = (1..=a2.len()).collect();
        let own2: Vec<(String, String)> = ida2.iter().filter(|x| a2.kind(**x) == "struct").map(|x| (a2.name(*x), format!("X{}", a2.name(*x)))).collect();
        before.push(("a2.pn".to_string(), a2.render_shared(&ida2, &own2)));
    }
    if verbose {
        for (path, src) in &before {
            println!("---- {path}\n{src}");
        }
        println!("---- b.pn\n{}", fb.1);
    }
    let module_b = |o: &driver::MultiOutcome| -> Value {
        let m = o.modules.iter().find(|m| m.path == "b.pn").expect("module b");
        behaviour(m.ok, m.ir.as_ref(), o.panic.as_ref(),
            json!(m.diags.iter().map(|d| json!([d.code, d.line])).collect::<Vec<_>>()),
            json!(m.lints.iter().map(|d| json!([d.code, d.line])).collect::<Vec<_>>()))
    };
    let o1 = driver::run_multi(&[fb.clone()], driver::Upto::Ir, false, false);
    let alone = module_b(&o1);
    let mut all = before.clone();
    all.push(fb.clone());
    let o2 = driver::run_multi(&all, driver::Upto::Ir, false, false);
    let after = module_b(&o2);
    let linked = behaviour(o2.ok, o2.ir.as_ref(), o2.panic.as_ref(), json!([]), json!([]));
    if verbose {
        println!("alone: {alone}\nafter: {after}\nlinked: {linked}");
    }
    let same_ir = o1.modules[0].ir == o2.modules.iter().find(|m| m.path == "b.pn").and_then(|m| m.ir.clone());
    json!({"ev": "hist", "prog": i, "seed": seed, "alone": alone, "after": after, "linked": linked, "same_ir_text": same_ir,
           "shared_structs": hist_shared_structs(seed, i)})
}

#!/bin/sh
# usage: tools/coverage.sh [ids...]   -- which parts of /repo/src does the quick tier of the checks execute?
# Builds the harness and the compiler of a scratch worktree of /repo HEAD with source-based coverage (nightly llvm-tools),
# runs the quick tier of every check against it and writes work/cov/report.txt (per file) and work/cov/uncovered.txt
# (functions of src/alpha and src/delta that no check executed).  A planning aid, not a check.
cd "$(dirname "$0")/.."
WT=/tmp/covrepo
git -C /repo worktree remove --force $WT 2>/dev/null
git -C /repo worktree add --detach $WT HEAD >/dev/null 2>&1 || exit 2
rm -rf work/cov; mkdir -p work/cov/raw
TAG=$(python3 -c "import hashlib,os;print(hashlib.sha1(os.path.realpath('$WT').encode()).hexdigest()[:10])")
rm -rf /tmp/pvh-$TAG
export PENNE_REPO=$WT RUSTUP_TOOLCHAIN=nightly RUSTFLAGS="-C instrument-coverage" LLVM_PROFILE_FILE=/verif/work/cov/raw/cov-%8m.profraw
IDS="${@:-C01 C02 C03 C04 C05 C06 C07 C08 C09 C10 C11 C12 C13 C14 C15 C16 C17 C18 C19 C20}"
for p in $IDS; do
  T0=$(date +%s)
  bin/check $p --tier quick > work/cov/$p.log 2>&1
  echo "$p exit $? $(( $(date +%s) - T0 ))s" | tee -a work/cov/runs.txt
done
TOOLS=$(dirname $(find /root/.rustup/toolchains/nightly-x86_64-unknown-linux-gnu -name llvm-profdata | head -1))
$TOOLS/llvm-profdata merge -sparse work/cov/raw/*.profraw -o work/cov/all.profdata || exit 2
OBJS=""
for b in /tmp/pvh-$TAG/target/debug/pvh* /tmp/pvh-$TAG/penne-target/release/penne /tmp/pvh-$TAG/penne-target/debug/penne; do
  [ -f "$b" ] && [ -x "$b" ] && case "$b" in *.d) ;; *) OBJS="$OBJS -object $b";; esac
done
$TOOLS/llvm-cov report $OBJS -instr-profile=work/cov/all.profdata --ignore-filename-regex='(\.cargo|rustc|harness)' 2>/dev/null > work/cov/report.txt
$TOOLS/llvm-cov report $OBJS -instr-profile=work/cov/all.profdata -show-functions $WT/src/alpha/*.rs $WT/src/alpha/*/*.rs $WT/src/delta/*.rs $WT/src/delta/*/*.rs $WT/src/main.rs 2>/dev/null > work/cov/functions.txt
tail -5 work/cov/report.txt
git -C /repo worktree remove --force $WT

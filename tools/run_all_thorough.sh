#!/bin/sh
# usage: tools/run_all_thorough.sh [ids...]  -- every thorough check against /repo, one summary line each (work/all-thorough.txt)
cd "$(dirname "$0")/.."
[ -d work ] || bin/setup
OUT=work/all-thorough.txt
: > $OUT
IDS="${@:-C01 C02 C03 C04 C05 C06 C07 C08 C09 C10 C11 C12 C13 C14 C15 C16 C17 C18 C19 C20}"
for p in $IDS; do
  T0=$(date +%s)
  bin/check $p --tier thorough > work/thorough-$p.log 2>&1
  RC=$?
  echo "$p exit $RC $(( $(date +%s) - T0 ))s violations=$(grep -c '^VIOLATION' work/thorough-$p.log) known=$(grep -c '^KNOWN-FINDING' work/thorough-$p.log) drift=$(grep -c '^MODEL-DRIFT' work/thorough-$p.log)" | tee -a $OUT
done

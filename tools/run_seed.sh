#!/bin/sh
# usage: tools/run_seed.sh <seed-id> <property> [tier]
# applies seeded/<seed-id>/patch.diff to a scratch worktree of /repo HEAD and runs the check against it
ID="$1"; PROP="$2"; TIER="${3:-quick}"
WT=/tmp/seedrun-$ID-$$
git -C /repo worktree remove --force $WT 2>/dev/null
git -C /repo worktree add --detach $WT HEAD >/dev/null 2>&1 || exit 2
(cd $WT && git apply /verif/seeded/$ID/patch.diff) || { echo "patch does not apply"; git -C /repo worktree remove --force $WT; exit 2; }
cd /verif && PENNE_REPO=$WT bin/check $PROP --tier $TIER > /verif/work/seedrun-$ID-$$.log 2>&1
RC=$?
echo "seed $ID on $PROP ($TIER): exit $RC, $(grep -c '^VIOLATION' /verif/work/seedrun-$ID-$$.log) VIOLATION lines"
grep -E "^\[(replay|trace|evidence)" /verif/work/seedrun-$ID-$$.log | tail -4
H=$(python3 -c "import hashlib,os;print(hashlib.sha1(os.path.realpath('$WT').encode()).hexdigest()[:10])")
rm -rf /tmp/pvh-$H
git -C /repo worktree remove --force $WT
exit $RC

#!/usr/bin/env python3
"""spec/README.md: index of the TLA+ modules (lines, number of cfgs, first line of the header comment)"""
import glob, os, re
rows = []
total = 0
for f in sorted(glob.glob('/verif/spec/*.tla')):
    b = os.path.basename(f)[:-4]
    text = open(f).read()
    n = text.count('\n')
    total += n
    cfgs = len([c for c in glob.glob('/verif/spec/%s*.cfg' % b) if re.match(r'^%s(_[A-Za-z0-9]+)*\.cfg$' % re.escape(b), os.path.basename(c))])
    m = re.search(r'\(\*+\s*\n?\(?\*?\s*(.*?)\s*\*?\)?\s*\n', text)
    first = ''
    for line in text.splitlines()[1:40]:
        l = line.strip()
        l = re.sub(r'^\(\*+', '', l); l = re.sub(r'\*+\)$', '', l); l = l.strip(' *')
        if l and l != ')' and not l.startswith('----') and not l.startswith('EXTENDS') and not l.startswith('====='):
            first = l
            break
    rows.append('| `%s.tla` | %d | %d | %s |' % (b, n, cfgs, first[:160].replace('|', '\\|')))
head = """# Specifications

One TLA+ module per rule / algorithm / input family; `MC_*` are TLC-only wrappers (case emission), `Trace_*` are trace
specifications (impl -> spec). Configurations (`*.cfg`) are next to their module. See DESIGN.md sections 4, 5 and 12.
%d modules, %d lines. Regenerate with `python3 tools/gen_spec_readme.py`.

| module | lines | cfgs | first line of its header comment |
|---|---|---|---|
""" % (len(rows), total)
open('/verif/spec/README.md', 'w').write(head + '\n'.join(rows) + '\n')
print('spec/README.md: %d modules, %d lines' % (len(rows), total))

#!/usr/bin/env python3
import json, sys
p = '/verif/seeded/%s/meta.json' % sys.argv[1]
m = json.load(open(p))
m.setdefault('confirmed_by_lead', {})['detected'] = sys.argv[2]
m['confirmed_by_lead']['check_run'] = 'tools/run_seed.sh %s %s (patch applied to a scratch worktree of /repo HEAD, PENNE_REPO=<worktree> bin/check %s --tier quick)' % (sys.argv[1], m.get('property_id', ''), m.get('property_id', ''))
json.dump(m, open(p, 'w'), indent=1)

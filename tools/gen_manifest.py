#!/usr/bin/env python3
"""Regenerates MANIFEST.json from the table below (kept in one place so it stays valid)."""
import json, os
V = os.path.dirname(os.path.dirname(os.path.abspath(__file__)))
props = [json.loads(l) for l in open(os.path.join(V, "properties.jsonl"))]
ids = [p["id"] for p in props]

CHECKS = {}
def check(pid, category, text, note, technique, design_ref):
    CHECKS[pid] = {
        "property_id": pid,
        "quick_cmd": "bin/check %s --tier quick" % pid,
        "thorough_cmd": "bin/check %s --tier thorough" % pid,
        "evidence_file": "/verif/evidence/%s.json" % pid,
        "replay_cmd_template": "bin/check %s --replay {path}" % pid,
        "engine": "tlc+pvh",
        "level_claimed": {"category": category, "text": text, "design_ref": design_ref},
        "level_note": note,
        "technique": technique,
    }

PENDING = {}
def not_claimed(pid, reason):
    PENDING[pid] = reason

# one fragment per property: tools/manifest.d/Cxx.py calls check(...) or not_claimed(...)
frag_dir = os.path.join(V, "tools", "manifest.d")
for name in sorted(os.listdir(frag_dir)):
    if name.endswith(".py"):
        exec(open(os.path.join(frag_dir, name)).read())

# only checks the lead has seen green on the unchanged tree are registered
enabled = set(open(os.path.join(frag_dir, "ENABLED")).read().split())
for pid in list(CHECKS):
    if pid not in enabled:
        PENDING.setdefault(pid, "check built but not yet accepted by the lead on the unchanged tree (under construction)")
        del CHECKS[pid]

manifest = {
    "version": 1,
    "setup_cmd": "bin/setup",
    "hooks": {
        "guard": "cargo feature penne_verif",
        "enable": "the harness depends on /repo by path with features alpha,llvm-sys,penne_verif (harness/Cargo.toml); "
                  "tools/bin/llvm-config is put first on PATH so that llvm-sys 60 links against the installed LLVM 14",
        "baseline_off_cmd": "cd /repo && cargo test --workspace --no-fail-fast --offline",
        "source_commits": [l.split()[0] for l in os.popen("git -C /repo log --format='%h %s' 192b0da..HEAD").read().splitlines() if " verif:" in l],
        "add_only": True,
    },
    "engines": [
        {"name": "tlc+pvh", "path": "/verif/bin/check",
         "serves_properties": sorted(CHECKS),
         "kind_free_text": "TLA+ specifications in spec/ checked by TLC (exhaustive small scope, case emission) and bound to "
                           "the Rust code by the harness `pvh` (spec->impl replay of every emitted case; impl->spec trace "
                           "validation of hook events recorded from random larger inputs)"},
    ],
    "checks": [CHECKS[i] for i in ids if i in CHECKS],
    "not_applicable": [{"property_id": i, "reason": PENDING.get(i, "check not built yet")} for i in ids if i not in CHECKS],
    "notes": "See DESIGN.md. known_findings.json lists genuine defects (open / fixed).",
}
json.dump(manifest, open(os.path.join(V, "MANIFEST.json"), "w"), indent=1)
print("MANIFEST.json:", len(manifest["checks"]), "checks,", len(manifest["not_applicable"]), "not claimed")

#!/bin/sh
# usage: tools/seed_verify_pinned.sh <worktree>   -- runs the pinned suite in a scratch worktree, compares the passing set by name
WT="$1"
cd "$WT" || exit 2
CARGO_TARGET_DIR="$WT/target" cargo test --workspace --no-fail-fast --offline 2>&1 | grep -E "^test .* \.\.\. ok$" | sed -E 's/^test (.*) \.\.\. ok$/\1/' | sort > "$WT/target/pinned-pass.txt"
python3 - "$WT/target/pinned-pass.txt" <<'PY'
import json,sys
b=json.load(open('/root/.vp/BASELINE.json'))
want=set(x.split('::')[-1] for x in b['stable_pass'])
got=set(l.strip().split('::')[-1] for l in open(sys.argv[1]))
print('pinned: %d expected, %d passing, missing %s, extra %d' % (len(want), len(got), sorted(want-got), len(got-want)))
sys.exit(0 if want==got else 1)
PY

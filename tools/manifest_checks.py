check("C04", "model_checking",
      "TLC exhaustively checks the label-scoper model against the declarative forward/outward rule on every body up to the "
      "bound; every such body is replayed on the real compiler and compared with the rule; random larger bodies are "
      "validated by TLC from recorded hook traces. Exhaustive within the bound on the real code, sampled beyond it.",
      "Trusted: TLC, the rule R in spec/LabelScope.tla (read off docs/features.md and the property), the renderer "
      "(one item per line, checked by projecting the parsed AST back). Bound: quick <=5 items, thorough <=6 items, 2 names, depth 3; "
      "random bodies <=40 items.",
      "TLA+ spec (LabelScope.tla) + TLC exhaustive enumeration, replay of every case on the real front end, TLC trace validation of hook events",
      "DESIGN.md section 5 C04")

check("C05", "model_checking",
      "TLC exhaustively checks the variable-scoper model against the syntactic scoping rule and checks the rule itself against "
      "an operational walk of the control-flow graph (every use finds its declaration executed) on every body up to the bound; "
      "every body is replayed on the real compiler; random larger bodies are validated by TLC from recorded hook traces, "
      "at rule level and step by step against the algorithm model.",
      "Trusted: TLC, the rule R and the CFG semantics in spec/VarScope.tla, the renderer. Bound: quick <=5 items depth 2 "
      "(+ modules with constants/parameters <=3 items), thorough <=6 items depth 3 (+ <=4 with constants/parameters, + two label names); "
      "random bodies <=40 items.",
      "TLA+ spec (VarScope.tla: rule, CFG path exploration, algorithm model) + TLC, replay of every case, TLC trace validation of hook events",
      "DESIGN.md section 5 C05")

check("C06", "model_checking",
      "TLC exhaustively checks the model of the syntax analyzer's flags and of the linter's L1800 flags against the structural "
      "placement rule on every statement-token sequence up to the bound; every sequence is replayed on the real compiler; "
      "random statement trees are validated by TLC from recorded visit events (rule level: diagnostics, lints, every statement "
      "examined exactly once; strict: flags at every visit).",
      "Trusted: TLC, the rule R in spec/Placement.tla, the renderer (one token per line). Bound: quick <=6 tokens, thorough <=8 tokens, "
      "nesting 4; random trees <=30 statements. A defective-model configuration (the pinned code before the fix) must violate Agree (vacuity guard).",
      "TLA+ spec (Placement.tla) + TLC exhaustive enumeration, replay of every case, TLC trace validation of visit/lint hook events",
      "DESIGN.md section 5 C06")

#!/usr/bin/env python3
"""docs/SEEDS.md from seeded/*/meta.json."""
import json, os, glob
V = os.path.dirname(os.path.dirname(os.path.abspath(__file__)))
rows = []
for d in sorted(glob.glob(os.path.join(V, "seeded", "*"))):
    m = json.load(open(os.path.join(d, "meta.json")))
    c = m.get("confirmed_by_lead", {})
    rows.append((os.path.basename(d), m.get("property_id", ""), m.get("what_it_breaks", ""), m.get("needs_to_manifest", ""), c.get("detected", "")))
out = ["# Seeded changes", "",
       "Written by independent sub-agents that were given only the text of a property and a scratch worktree (nothing from /verif).",
       "Each compiles, keeps the pinned suite at the same 75 passing tests, and has a demonstration (in its directory) that",
       "differs between the original and the changed compiler. `tools/run_seed.sh <seed> <property>` applies the patch to a",
       "scratch worktree of /repo HEAD and runs the check against it.", "",
       "| seed | property | what it breaks (abridged) | needs to manifest (abridged) | detected by the check? |", "|---|---|---|---|---|"]
def cut(s, n):
    s = " ".join(str(s).split()).replace("|", "\\|")
    return s if len(s) <= n else s[:n - 1] + "…"
for r in rows:
    out.append("| %s | %s | %s | %s | %s |" % (r[0], r[1], cut(r[2], 260), cut(r[3], 200), cut(r[4], 420)))
missed = [r for r in rows if r[4].startswith("MISSED")]
out += ["", "%d seeds; %d were missed by the check of their property when first run (each led to a strengthening, described in the last column)." % (len(rows), len(missed)), ""]
open(os.path.join(V, "docs", "SEEDS.md"), "w").write("\n".join(out))
print("docs/SEEDS.md:", len(rows), "seeds,", len(missed), "missed at first")

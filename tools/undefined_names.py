#!/usr/bin/env python3
"""poor man's pyflakes (no linter is installed in the sandbox): names that are read in checks/*.py, tools/*.py and
bin/check but bound nowhere in the enclosing scopes / module / builtins.  Thorough-tier-only code paths are otherwise
only exercised by long runs."""
import ast, builtins, glob, sys

def bound_names(node):
    out = set()
    for n in ast.walk(node):
        if isinstance(n, (ast.FunctionDef, ast.AsyncFunctionDef, ast.ClassDef)):
            out.add(n.name)
        elif isinstance(n, ast.Name) and isinstance(n.ctx, (ast.Store, ast.Del)):
            out.add(n.id)
        elif isinstance(n, ast.arg):
            out.add(n.arg)
        elif isinstance(n, (ast.Import, ast.ImportFrom)):
            for a in n.names:
                out.add((a.asname or a.name).split(".")[0])
        elif isinstance(n, ast.ExceptHandler) and n.name:
            out.add(n.name)
        elif isinstance(n, (ast.Global, ast.Nonlocal)):
            out.update(n.names)
    return out

bad = 0
for f in sorted(glob.glob("/verif/checks/*.py") + glob.glob("/verif/tools/*.py") + ["/verif/bin/check"]):
    tree = ast.parse(open(f).read(), f)
    known = bound_names(tree) | set(dir(builtins)) | {"__file__", "__name__"}
    for n in ast.walk(tree):
        if isinstance(n, ast.Name) and isinstance(n.ctx, ast.Load) and n.id not in known:
            print("%s:%d: undefined name %s" % (f, n.lineno, n.id))
            bad += 1
sys.exit(1 if bad else 0)

#!/bin/sh
# usage: tools/run_all_quick.sh   -- every quick check against /repo, one summary line each (work/all-quick.txt)
cd /verif
OUT=work/all-quick.txt
: > $OUT
for p in C01 C02 C03 C04 C05 C06 C07 C08 C09 C10 C11 C12 C13 C14 C15 C16 C17 C18 C19 C20; do
  T0=$(date +%s)
  bin/check $p --tier quick > work/quick-$p.log 2>&1
  RC=$?
  echo "$p exit $RC $(( $(date +%s) - T0 ))s violations=$(grep -c '^VIOLATION' work/quick-$p.log) known=$(grep -c '^KNOWN-FINDING' work/quick-$p.log) drift=$(grep -c '^MODEL-DRIFT' work/quick-$p.log)" | tee -a $OUT
done

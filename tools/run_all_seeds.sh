#!/bin/sh
# usage: tools/run_all_seeds.sh [pattern]   -- re-runs every stored seed against its property's quick check (regression of the
# detection table); prints one line per seed; writes work/all-seeds.txt
cd /verif
OUT=work/all-seeds.txt
: > $OUT
for d in seeded/${1:-*}/; do
  ID=$(basename $d)
  PROP=$(python3 -c "import json;print(json.load(open('$d/meta.json'))['property_id'])")
  R=$(tools/run_seed.sh $ID $PROP 2>&1 | head -1)
  echo "$R" | tee -a $OUT
  rm -f work/seedrun-$ID-*.log
done
echo "missed: $(grep -c 'exit 0' $OUT)  tool errors: $(grep -c 'exit 2' $OUT)  of $(wc -l < $OUT)" | tee -a $OUT

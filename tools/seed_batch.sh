#!/bin/sh
# usage: tools/seed_batch.sh "<worktree> <seed-id> <property>" ...   -- verify pinned suite, store, run the check against each
for spec in "$@"; do
  set -- $spec
  WT=$1; ID=$2; PROP=$3
  echo "##### $ID"
  /verif/tools/seed_verify_pinned.sh $WT || { echo "PINNED SUITE DIFFERS for $ID: not stored"; continue; }
  /verif/tools/seed_intake.sh $WT $ID $PROP pending
  /verif/tools/run_seed.sh $ID $PROP
done

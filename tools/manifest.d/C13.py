check("C13", "exploration",
      "TLC decides (1) the catalogue: codes Error::code can return vs the headings of docs/errors.md; (2) for every diagnostic and lint of "
      "every failing/linted run of the shared worker run: code in the table, file named, span inside the file and starting on the reported "
      "line (characters), injected faults covered by a diagnostic of their code, build_report+write succeeding in all four colour/charset "
      "configurations (Diagnostics.tla, Trace_Diagnostics.tla); (3) determinism: inputs compiled 3x/8x in fresh processes must give the same "
      "verdict, diagnostics and IR text (Trace_Determinism.tla); (4) syntax errors: for every token sequence the recogniser SyntaxRules.tla "
      "calls invalid(lo, hi), the span of the first parse diagnostic covers a token of the window lo..hi; (5) layout variants of every invalid sample "
      "(no final newline, behind a 300-column multi-byte line, as one line, as second / third module of a set, twice in one file): the expected place of each "
      "diagnostic is decided by TLC (Diagnostics!CoversAt); (6) operator chains `a | b | c` whose k-th operand has another type, in every layout and "
      "context (PipelineShapes.tla, family chain): the E551 / E550 touches the operator TLC names or spans one of its operands (Diagnostics!CoversParts); (7) E351 / E358 return types of public functions in imported modules, in every module order: the diagnostic intersects the return type in the declaring file.",
      "'Covers the offending text' is decided only where the offending text is known (injected lexical faults, E402 specials, operator chains); elsewhere "
      "well-formedness of the location. The rendering observation (write returned Ok) is made by the harness. Line starts are computed by "
      "the harness, not by the lexer under test. `col` and clean rendering (no ESC without colour, ASCII frames) are notes only here.",
      "TLA+ specs (Diagnostics.tla, Trace_Determinism.tla) + TLC trace validation of recorded diagnostics and of repeated runs in fresh processes",
      "DESIGN.md section 5 C13")

check("C06", "model_checking",
      "TLC exhaustively checks the model of the syntax analyzer's flags and of the linter's L1800 flags against the structural "
      "placement rule on every statement-token sequence up to the bound; every sequence is replayed on the real compiler; "
      "random statement trees are validated by TLC from recorded visit events (rule level: diagnostics, lints, every statement "
      "examined exactly once; strict: flags at every visit).",
      "Trusted: TLC, the rule R in spec/Placement.tla, the renderer (one token per line). Bound: quick <=6 tokens, thorough <=8 tokens, "
      "nesting 4; modules of two (thorough three) function bodies <=7 (8) tokens, call / declaration statements <=5 (7) tokens, statements that also carry an error of a later analysis (E511, E512, E530) <=5 (6) tokens; every case also as second module and on one source line; accepted bodies as the first / last of two modules through the real `penne emit` (L1800 count and exit status); "
      "random modules of 1-3 functions, trees <=30 statements, nesting <=8. A defective-model configuration (the pinned code before the fix) must violate Agree (vacuity guard).",
      "TLA+ spec (Placement.tla) + TLC exhaustive enumeration, replay of every case, TLC trace validation of visit/lint hook events",
      "DESIGN.md section 5 C06")

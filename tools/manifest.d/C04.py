check("C04", "model_checking",
      "TLC exhaustively checks the label-scoper model against the declarative forward/outward rule on every body up to the "
      "bound; every such body is replayed on the real compiler and compared with the rule; random larger bodies are "
      "validated by TLC from recorded hook traces. Exhaustive within the bound on the real code, sampled beyond it.",
      "Trusted: TLC, the rule R in spec/LabelScope.tla (read off docs/features.md and the property), the renderer "
      "(one item per line, checked by projecting the parsed AST back). Bound: quick <=6 items, thorough <=7 items, 2 names, depth 3; "
      "modules of 2 (thorough 3) function bodies <=5 (6) items, bodies with `return:` + result and `goto return` <=6 (7) items; "
      "8 layouts; every third (thorough: every) case also as second module of a compilation and with all items on one source line; random modules of 1-3 functions <=61 items, nesting <=9.",
      "TLA+ spec (LabelScope.tla) + TLC exhaustive enumeration, replay of every case on the real front end, TLC trace validation of hook events",
      "DESIGN.md section 5 C04")

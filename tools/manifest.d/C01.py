check("C01", "model_checking",
      "An executable TLA+ semantics (Machine.tla over Wide.tla limb arithmetic) is the oracle: TLC evaluates the complete "
      "operator x type x boundary-operand matrix and runs every accepted control-flow skeleton up to the bound; every cell and "
      "skeleton is compiled by the real compiler, executed with lli and compared on full stdout; random well-typed programs "
      "are compiled and executed and TLC validates their recorded output by running the machine on the logged program. "
      "Each program runs in several layouts that must agree.",
      "Trusted: TLC, Machine.tla/Wide.tla (Wide is model-checked against native arithmetic for 8/16 bits), decimal<->limb conversion in "
      "Python, lli. Stage 1 of the design: all integer widths, bool, casts, blocks/goto/if-else/loop, calls by value, constants, arrays "
      "by value; pointers, views/slices as parameters, structs and words are not yet in the machine. Random programs: 240 quick / 3000 thorough.",
      "TLA+ operational semantics (Machine.tla) evaluated by TLC: exhaustive operator matrix and control-flow skeletons replayed on the compiler; TLC trace validation of recorded program output",
      "DESIGN.md section 5 C01")

check("C01", "model_checking",
      "An executable TLA+ semantics (Machine.tla over Wide.tla limb arithmetic; places = [frame, variable, path] with read-only views, "
      "autoderef by address-marker count, nested runs for call expressions) is the oracle: TLC evaluates the complete operator x type x "
      "boundary-operand matrix, runs every accepted control-flow skeleton up to the bound (also with two label names; every other pack with an uncalled "
      "never-returning function in front of each function) and every "
      "caller/callee program of MC_MachinePtr (parameter kind x argument form x way the callee treats it), checking non-interference, "
      "legality and the machine's monitors as invariants; every cell, skeleton and program is compiled by the real compiler, executed with "
      "lli and compared on full stdout (programs the machine refuses must be rejected); random well-typed programs over the whole "
      "documented language are compiled and executed and TLC validates their recorded output by running the machine on the logged "
      "program. Each program runs in several layouts that must agree, and every random program also split over two files (lib.pn / main.pn, "
      "in both file orders, with unused private constants added) must behave like the single file. The documented C interoperability is an "
      "executed family of its own (CInterop.tla: foreign functions whose meaning the specification defines, both call directions, all ABI "
      "integer types with dirty upper bits, views, pointers, parameter lists up to 12): C templates compiled by clang, the program linked "
      "and run under lli and natively (clang -O0 / -O1), the calling-convention and linkage facts of the IR compared with the rule. "
      "Further exhaustive families (MC_MachineData / Frames / Nest over MachineBuild.tla): arrays of 0..1000 elements, zero-length and 3-dimensional arrays, "
      "structures of 12 members nested 3 deep, word copies, views of views, pointers across loop iterations, loop-local declarations (also constant "
      "aggregates), recursion, 1-12 parameters of every type, 14 names x 8 namespace roles, nested loops with gotos to outer labels. Type inference "
      "(Inference.tla): every body with unannotated declarations / unsuffixed literals up to the bound whose types are determined must be accepted and "
      "behave like its fully annotated twin. Every fourth replayed program is also compiled as the SECOND module of a compilation.",
      "Trusted: TLC, Machine.tla/Wide.tla (Wide is model-checked against native arithmetic for 8/16 bits), Layout.tla, decimal<->limb "
      "conversion in Python, lli. Stage 3 of the design: all integer widths, bool, casts, blocks/goto/if-else/loop, calls in statements and "
      "expressions, pointers with explicit address assignment, views, slice pointers, lengths, multi-dimensional arrays, structs, words, "
      "constants of aggregate type, size-of. Unconstrained (kept out, docs/notes-machine.md): evaluation order of sibling operands with "
      "side effects, functions returning pointers, char8 arithmetic, printing of pointers. Random programs: 240 quick / 4000 thorough; "
      "C interoperability: 234 programs x {lli, native} + 48 / 1000 random mixed programs (trusted there: clang-14, llvm-link-14; the C "
      "templates compute in the unsigned type of the same width, so C's promotions never decide a result).",
      "TLA+ operational semantics (Machine.tla) evaluated by TLC: exhaustive operator matrix, control-flow skeletons and caller/callee family replayed on the compiler; TLC invariants for non-interference; TLC trace validation of recorded program output",
      "DESIGN.md section 5 C01")

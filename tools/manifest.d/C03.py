check("C03", "translation_validation",
      "For every run of the shared worker run that ends in Success (TLC-emitted module sets and token sequences, valid corpus and its import "
      "closures also for the wasm target, mutants that still compile, nesting shapes, generated 2-3-module sets) the IR text of every module and "
      "of the linked program is given to llvm-as and opt -passes=verify as independent tools; TLC validates the recording with `ir` events "
      "after every generate/link: both tools accept and the extracted define/declare table satisfies Symbols.tla (a function that is neither pub nor main "
      "may carry any symbol name of its own: `.fn.NAME`)." "Structured cells (PipelineShapes.tla, MC_PipelineWide.tla): every builtin x 0-3 arguments x argument kind x 6 contexts x one / two / three modules x wasm, nesting at 126-129 in 18 reference and 9 type constructs (verdict E390 from docs/errors.md), exact source sizes up to 65 536 bytes, symbol-table shapes (flags x kind of definition x placement), names shared between modules, sets of 4-6 modules in 8 import topologies x fault placement x position of main.",
      "IR validity itself is decided by LLVM 14's assembler and verifier (the property's own definition); the specification decides the "
      "definedness/linkage clause and that the observation is made for every accepted program. Local (non-pub, non-main) functions of the "
      "linked program are unconstrained (LLVM's linker drops unreferenced locals). Programs are never executed.",
      "independent LLVM tools on every emitted IR text + TLA+ spec (Symbols.tla) + TLC trace validation (Trace_Pipeline.tla, RequireIR)",
      "DESIGN.md section 5 C03")

check("C08", "model_checking",
      "TLC enumerates every reference cell (base kind var/param/const x declared shape x well-typed path of <= 3 (thorough 4) "
      "index/member steps x address depth x context assign/read/argument/missing-address), checks the model of the typer's "
      "step insertion (Autoderef.tla) and of the mutability scan against the declarative rule (A = R) and every cell is "
      "replayed on the real front end (E530/E531-E533/E513 or accepted). Non-interference: TLC enumerates a caller/callee "
      "family (7 parameter kinds x 5 ways the callee treats the parameter x 0..2 address markers, and all pairs), derives "
      "verdict and the caller's cells before/after the call from the rules; accepted programs are compiled, executed with lli "
      "and the printed cells validated by TLC (a change without `&` on the argument is rejected).",
      "Trusted: TLC, the rule R in spec/Mutability.tla and the machine in spec/CallEffects.tla (property text, errors.md "
      "E530-E533/E513, features.md Views / Reference pointers), the renderers, lli. Shapes are representatives over i32; "
      "pointers stored inside views are unconstrained (spec/UNCONSTRAINED-types.md). Cells are crossed with 9 statement contexts and 7 expression contexts (address-of arguments), the callees of the call family place their statement in every statement context. Extern callees (`[]T` / `&[]T` of extern functions) are part of the cells (ctx argxp) and of the call family. Whole-aggregate copies are also placed next to a call evaluated earlier in the same statement. Quick 7 245 cells + 1 711 programs "
      "(851 executed).",
      "TLA+ specs (Mutability.tla, Autoderef.tla, CallEffects.tla) + TLC, replay of every cell, execution + TLC trace validation of the call family",
      "DESIGN.md section 5 C08")

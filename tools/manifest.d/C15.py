check("C15", "exploration",
      "The deciding observation (the process panicked, died or hung) is made by the harness: every input runs the real "
      "second-generation front end (lex, parse, errors, build_header, all XML dumps) in an isolated worker process. The "
      "TLA+ specification DeltaBuffers.tla contributes the input space (TLC enumerates every derivation of a grammar "
      "annotated with tokens consumed / nodes pushed up to a token bound, with junk tokens, truncation and invalid lexemes, "
      "every token sequence up to length 2 (3) in 8 contexts, and 516 integer literals at the 128-bit boundary in every spelling whose validity the reference "
      "automaton of PenneLex.tla decides, MC_LexNumbers.tla), the verdict oracle (well-formed => accepted, invalid "
      "lexeme => rejected, exhausted token buffer => E103, never a crash) and the buffer protocol that TLC validates on the "
      "recorded hook events of every random run (SetLen argument = initialised slots <= capacity, cursor inside the token "
      "array). TLC also model-checks the capacity question itself: 5 + 2*tokens is violated at 9-11 tokens, 5 + 4*tokens "
      "holds up to the bound. Sampled beyond the bounds (arbitrary bytes, soups, programs of every density, deep nesting, "
      "mutated corpus, <= 256 KiB). Boundary cells (MC_DeltaBuffersEdge.tla): token counts around the capacity at source lengths around 2 x 65536, payload counts around "
      "2^8 / 2^16, two limits at once (E103 after an invalid lexeme, E102 with invalid UTF-8), 1..250 errors, lexemes cut by the end of input, NUL / control / invalid bytes at buffer "
      "boundaries, depths 1..256, names up to 200 000 bytes, a source of 2^31+1 bytes (E102); thorough: token counts around 2^24. A sample of inputs is run a second time in another order in the same worker. The recogniser of the documented grammar (SyntaxRules.tla: pushdown recogniser over token classes, verdict valid | unc | invalid(lo, hi); all class sequences up to the bound in 7 contexts, every single-token fault of the derived modules, mutated corpus files validated by TLC on the real token stream) contributes the discrepancies that belong to this property.",
      "Trusted: the harness supervisor (crash / timeout attribution per input), TLC, the annotated grammar (read off "
      "parser.rs; its node predictions are compared with the real parser on every emitted derivation: MODEL-DRIFT if they "
      "differ). Memory safety is decided through the buffer protocol and crashes only; a silent out-of-bounds read is "
      "invisible (thorough tier repeats a sample under miri as a stricter observer). Bounds: quick <= 11 tokens per "
      "derivation, sequences <= 2; thorough <= 12 tokens, sequences <= 3; 8 MiB stack; 10 s per input.",
      "isolated-process exploration driven by a TLA+ spec (DeltaBuffers.tla): TLC-enumerated derivations and token "
      "sequences + seeded generators, verdict oracle from the spec, TLC trace validation of the buffer protocol",
      "DESIGN.md section 5 C15")

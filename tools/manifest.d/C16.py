check("C16", "model_checking",
      "TLC derives, from the grammar specification PenneGrammar.tla (one action per production, -coverage must show every production "
      "applied), every module of each focus of the language up to a bound on syntax nodes together with its own syntax tree "
      "(R: Parse(Toks(ast)) = ast by construction; invariants TreeOK, ToksAgree). Every derived module is rendered in several seeded "
      "random layouts and parsed by the real second-generation lexer+parser (XML dump read back, well-formedness checked) and by the "
      "first generation; the three trees must be equal. Corpus files accepted by both parsers: the two trees are compared. "
      "Larger random modules (TLC simulation mode), a sample of the derived ones and the corpus files are lexed and parsed by the real "
      "code and TLC (Trace_Grammar.tla) re-parses the recorded token stream along the recorded tree. Exhaustive within the bounds on the "
      "real code, sampled beyond them. The recogniser of the documented grammar (SyntaxRules.tla: pushdown recogniser over token classes, verdict valid | unc | invalid(lo, hi); all class sequences up to the bound in 7 contexts, every single-token fault of the derived modules, mutated corpus files validated by TLC on the real token stream) contributes the discrepancies that belong to this property. A sample of the derived modules is also repeated 130 / 270 / 1100 times (Module ::= Decl*); the cell generator MC_PenneGrammarCells.tla adds 12 families "
      "(wide / deep / documented bounds / expressions x positions / types x positions / statements x positions / names x namespaces / declaration orders) and "
      "three systematic layouts (no whitespace and no final newline, a comment in every gap, a newline in every gap).",
      "Trusted: TLC, the grammar in spec/PenneGrammar.tla + PenneAst.tla (from docs/syntax.md, features.md, README, the sample programs; "
      "precedence levels looked up in src/alpha/parser.rs because the documents are silent), the renderer, the XML reader and the two "
      "projections onto the exchange format (checks of the checker: 3 self-tests, 4 mutations of the parser/dump are caught). Bounds: 13 foci, "
      "quick <=6..9 nodes per focus (about 1.4e5 modules x 3 layouts), thorough <=7..10 nodes (about 1.1e6 modules x 6 layouts); random modules "
      "<=60 nodes. Modules the first generation rejects are not judged (MODEL-DRIFT).",
      "TLA+ grammar specification (PenneGrammar.tla) + TLC exhaustive derivation, replay of every module through both real parsers, "
      "TLC trace validation (re-parse) of the real lexer's token stream against the real parser's tree",
      "DESIGN.md section 5 C16")

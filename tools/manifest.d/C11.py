check("C11", "model_checking",
      "TLC exhaustively checks the model of the container analysis (found_container_1, determine_container_depths, the depth sort) "
      "against the rule 'accepted iff no constant/structure contains itself by value; E413/E415/E416 truthful of the declaration "
      "they are on; depth = longest containment path; typed in topological order' on every containment digraph x kind assignment x "
      "permutation of the declarations up to the bound, and the transcribed legality table of the code against the documented rule "
      "on every value type (nesting <= 3) in every declaration position; every case and cell is compiled by the real front end; "
      "random graphs (<= 8 declarations, hook events contain/depth) and generated programs under random permutations of their "
      "declarations (compiled and executed) are validated by TLC. Exhaustive within the bound on the real code, sampled beyond it.",
      "Trusted: TLC, the rules R in spec/Containers.tla and spec/Positions.tla (read off the property, docs/errors.md, docs/features.md "
      "and the expected codes of tests/samples), the renderers (one declaration per line). Cells where the documentation is silent "
      "are unconstrained (spec/UNCONSTRAINED-modules.md: about 2/3 of the type x position cells, e.g. everything with [:]T or (T), "
      "[N]T parameters). Bound: quick <= 4 declarations (all permutations up to 3, all labelled graphs in file order for 4; pointer and "
      "self references up to 3; words as a third kind up to 3; the chain of 6 declarations plus one more reference in 6 file orders; "
      "12 spellings of a reference), thorough all permutations of 4; types to depth 3 over 6 leaves (+10 primitive leaves to depth 1/2), "
      "pub/extern flags on every cell of depth <= 2, pairs of declarations (19 first cells x every cell of depth <= 1), duplicates in "
      "3 / last / first+last / two-file positions; 400 (5000) generated programs x 6 (8) orders, every fourth with every kind of "
      "declaration (40 declarations). Which member of a cycle carries the diagnostic is not compared.",
      "TLA+ specs (Containers.tla: rule, algorithm model, Gen; Positions.tla: rule, transcribed table, Gen) + TLC, replay of every case, "
      "TLC trace validation of hook events and of metamorphic permutation records",
      "DESIGN.md section 5 C11")

check("C14", "model_checking",
      "spec/PenneLex.tla is an executable reference lexer (byte-at-a-time automaton over Seq(0..255), written from the docs and the "
      "property statement). TLC enumerates EVERY text up to 3 (quick) / 4 (thorough, 5.9 million, 49 chunks) symbols over a 49-symbol "
      "alphabet of lexically significant bytes plus every ordered pair of representative token spellings x 8 separators, plus characters outside ASCII whose "
      "truncated code point aliases a lexical class in 128 positions (MC_LexAlias.tla) and 516 integer literals at the 128-bit boundary in every spelling "
      "(MC_LexNumbers.tla: leading zeros, digit separators, suffix), checks the "
      "tiling invariants on the reference output and emits the expected items; both real lexers are run on every text and kinds, "
      "payload limbs, suffix types, bytes, spans, line/column and error codes are compared with the rule and with each other. Random "
      "token soups / arbitrary bytes are recorded from the real lexers and every recording is accepted or rejected by TLC "
      "(Trace_Lex re-lexes the logged bytes). Exhaustive within the bound on the real code, sampled beyond it. Scaled texts (MC_LexBig.tla: two scaling "
      "lemmas checked by TLC on the reference lexer): tokens ending / starting exactly at offsets 256 / 4096 / 65536, line / token / error / payload counts and "
      "lexeme lengths / columns across 2^8, 2^10, 2^16; long random texts up to 180 KB and a 1.5 MB counting text recorded as windows.",
      "Trusted: TLC, the rule PenneLex.tla, Wide.tla (model-checked limb arithmetic; NumValue is checked against Wide!Parse on every "
      "enumerated literal), the projection of tokens in harness/src/lex/obs.rs. Unconstrained cells (docs silent) are listed in "
      "docs/notes-lex.md. Deviations are keyed by a precisely described input shape (signature :: text); the genuine findings, their "
      "known_findings.json entries and the prepared fix branch are in docs/notes-lex.md.",
      "TLA+ reference lexer + TLC exhaustive enumeration with tiling invariants, replay of every text on both real lexers, TLC trace validation of recorded token streams",
      "DESIGN.md section 5 C14")

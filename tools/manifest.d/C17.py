check("C17", "model_checking",
      "TLC exhaustively checks the model of the flat node buffer (private-zone protocol, build_header_nodes with "
      "num_skipped_nodes, convert_for_head) against the declarative rule (header = pub declarations, in order, flag "
      "cleared, bodies removed, every other part identical; reference integrity) on every module up to the bound; every "
      "such module is rendered and run through the real front end, and build_header().as_xml() is compared with the rule's "
      "header (projected) and with as_xml() of the rule's header rendered as its own module (textually); random larger "
      "modules are validated by TLC from recorded hook events (zones, declaration nodes, header steps). Exhaustive within "
      "the bound on the real code, sampled beyond it.",
      "Trusted: TLC, the rule RHeader in spec/Header.tla (from the property statement and docs/features.md 'Imports'), the "
      "renderer and the XML projection (their composition is checked on every case). Bounds: quick 5 declarations x 9 "
      "shapes (all pub/private interleavings of every kind) + 2 declarations x 61 shapes; thorough adds 7 x 5 shapes and "
      "3 x 30 shapes; random modules <= 40 declarations with bodies <= 120 statements; family xmod: 0 / 1 / 1000 declarations, pub/private "
      "alternating 500 times, private zones at the start / end / everywhere, bodies of 4000-5000 statements (skip counters > 2^16), headers of "
      "88 704 nodes, every pub x extern x opaque combination on every kind, literals that need escaping in the dump.",
      "TLA+ spec (Header.tla) + TLC exhaustive enumeration, replay of every case on the real front end (projection + "
      "metamorphic comparison), TLC trace validation of hook events",
      "DESIGN.md section 5 C17")

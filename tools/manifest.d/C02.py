check("C02", "exploration",
      "TLC model-checks the driver protocol (Pipeline.tla: order of calls, poison algebra, outcome; invariants I1-I5, three defective "
      "variants must violate them) and enumerates the exhaustive part of the input space (all token sequences up to the bound, all module "
      "sets up to the bound); those, seeded mutants/soup/nesting/faulted programs/module sets, and the programs of the generators of other "
      "checks (the well-formed random programs of C01, which must compile -- I4 --, and the permutation family of C11) are each compiled in an isolated worker "
      "process, and TLC validates every recorded event sequence as a behaviour of the protocol ending in Success or Failure with >= 1 code "
      "(Trace_Pipeline.tla). A 5% sample and every anomalous run also go through the real `penne emit` binary. The recogniser of the documented grammar (SyntaxRules.tla: pushdown recogniser over token classes, verdict valid | unc | invalid(lo, hi); all class sequences up to the bound in 7 contexts, every single-token fault of the derived modules, mutated corpus files validated by TLC on the real token stream) contributes the discrepancies that belong to this property.",
      "The observation 'the process died / hung / panicked' is made by the harness, not derived by TLC; the specification supplies the "
      "protocol, the invariants and the exhaustive part of the input space. Trusted: TLC, the worker driving the library in main.rs order "
      "(cross-checked on the CLI sample). Structured cells (PipelineShapes.tla, MC_PipelineWide.tla): every builtin x 0-3 arguments x argument kind x 6 contexts x one / two / three modules x wasm, nesting at 126-129 in 18 reference and 9 type constructs (verdict E390 from docs/errors.md), exact source sizes up to 65 536 bytes, symbol-table shapes (flags x kind of definition x placement), names shared between modules, sets of 4-6 modules in 8 import topologies x fault placement x position of main. Bounds: quick = token sequences <= 2 over 86 symbols x 2 contexts, module sets <= 2 modules/2 decls, "
      "~14k seeded inputs; thorough = + sequences <= 3 over 56 core symbols, sets <= 3 modules, ~170k seeded inputs. Nesting <= 256, texts <= 64 KiB.",
      "TLA+ spec (Pipeline.tla, PipelineTokens.tla) + TLC exhaustive enumeration, isolated worker processes with crash/hang isolation, TLC trace validation",
      "DESIGN.md section 5 C02")

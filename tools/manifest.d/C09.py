check("C09", "model_checking",
      "spec/Literals.tla (on PenneLex + Wide) is the rule: Value(spelling), TypeOf(suffix or context), InRange, E140/E141/E110/"
      "E160-E163, L1142 iff out of range, string/char bytes from escape decoding, concatenation. TLC enumerates the boundary matrix "
      "(12 contexts x boundary and in-between magnitudes x 7 spellings x suffix/annotation x unary minus; the lint in 12 syntactic "
      "positions; all byte values x {raw, \\xHH, \\<c>, \\u{}} x {string, char, inside a string}; concatenations) and emits one case "
      "per literal; every case is rendered into a program that prints the literal, compiled by the real compiler and executed under "
      "lli; printed decimals (limbs -> decimal in Python), codes and lints are compared with the rule. Random literals in between are "
      "compiled, run, recorded and validated by TLC (Trace_Literals). Also: every literal's value printed from 12 POSITIONS (constant, element, argument, "
      "return value, member, operand, cast operand, index, array length ...), strings of 255..65537 bytes, 4-5 adjacent pieces, the literal as last token of the "
      "file (4 endings), 700 / 69 000 literals in one module, the same literals in two modules (both file orders), out-of-range literals at the same "
      "offsets of two modules (one L1142 per literal and module).",
      "Trusted: TLC, Literals.tla / PenneLex.tla / Wide.tla (NumValue = Wide!Parse and the decimal table are checked by TLC on every "
      "enumerated literal), print! of integers, lli, the limbs<->decimal conversion. Unconstrained cells and the genuine findings "
      "(false L1142 on i128::MIN, no L1142 in return values and if conditions, \\u{} in char literals) are in docs/notes-lex.md.",
      "TLA+ rule + TLC enumeration of the boundary matrix, replay of every literal through the real compiler and lli, TLC trace validation of random literals",
      "DESIGN.md section 5 C09")

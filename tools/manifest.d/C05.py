check("C05", "model_checking",
      "TLC exhaustively checks the variable-scoper model against the syntactic scoping rule and checks the rule itself against "
      "an operational walk of the control-flow graph (every use finds its declaration executed) on every body up to the bound; "
      "every body is replayed on the real compiler; random larger bodies are validated by TLC from recorded hook traces, "
      "at rule level and step by step against the algorithm model.",
      "Trusted: TLC, the rule R and the CFG semantics in spec/VarScope.tla, the renderer. Bound: quick <=5 items depth 2 "
      "(+ modules with constants/parameters <=3 items), thorough <=6 items depth 3 (+ <=4 with constants/parameters, + two label names); "
      "modules of two function bodies <=6 items, further use contexts / else-parts / label named like the variable <=5 items, result "
      "expression with `goto return` <=6 items, two labels x two variables in phased bodies <=6 (thorough 7) items, bodies that open with a block with bare gotos and two label names "
      "(declarations in dead code) <=7 (8) items; every case also as second module of a compilation and with all items on one source line; "
      "random modules of 1-3 functions, bodies <=48 items, nesting <=8.",
      "TLA+ spec (VarScope.tla: rule, CFG path exploration, algorithm model) + TLC, replay of every case, TLC trace validation of hook events",
      "DESIGN.md section 5 C05")

check("C20", "model_checking",
      "TLC derives every module of each focus of PenneGrammar.tla up to the bound together with its own syntax tree (-coverage: every "
      "production, hence every printing arm of the rebuilder, occurs). Every derived module without builtin calls, and every corpus file "
      "that parses without error and has no builtin call, is parsed, rebuilt, parsed and rebuilt again by the real first generation: "
      "Norm(Parse(Rebuild(Parse(src)))) must equal Norm of the specification's tree (corpus: of the file's own first parse) and the "
      "second rebuilt text must be byte-identical to the first. Replay only (the rebuilder has no internal state worth tracing); "
      "exhaustive within the bounds. Also: the cell generator MC_PenneGrammarCells.tla (12 families: lists of 130 / 270 / 1100 items, nests of 130 / 270, the documented "
      "maxima, 48 expressions x 34 positions, 30 types x 20 positions, 23 statements x 13 positions, names x namespaces, indentation below 0-130 blocks, string "
      "lengths around 2^7..2^16), long strings around every line width (focus longstr), r copies of derived modules, three systematic layouts.",
      "Trusted: TLC, the grammar specification (as for C16), the renderer and the projection of the first-generation AST. Norm forgets "
      "locations, literal spelling and type suffix (a character literal counts as its integer value), as the property says. Bounds as C16 "
      "(the derivation is shared). Checks of the checker: 2 self-tests, 3 mutations of the rebuilder are caught.",
      "TLA+ grammar specification (PenneGrammar.tla) + TLC exhaustive derivation, replay of every module through parse/rebuild/parse/rebuild",
      "DESIGN.md section 5 C20")

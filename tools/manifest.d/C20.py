check("C20", "model_checking",
      "TLC derives every module of each focus of PenneGrammar.tla up to the bound together with its own syntax tree (-coverage: every "
      "production, hence every printing arm of the rebuilder, occurs). Every derived module without builtin calls, and every corpus file "
      "that parses without error and has no builtin call, is parsed, rebuilt, parsed and rebuilt again by the real first generation: "
      "Norm(Parse(Rebuild(Parse(src)))) must equal Norm of the specification's tree (corpus: of the file's own first parse) and the "
      "second rebuilt text must be byte-identical to the first. Replay only (the rebuilder has no internal state worth tracing); "
      "exhaustive within the bounds.",
      "Trusted: TLC, the grammar specification (as for C16), the renderer and the projection of the first-generation AST. Norm forgets "
      "locations, literal spelling and type suffix (a character literal counts as its integer value), as the property says. Bounds as C16 "
      "(the derivation is shared). Checks of the checker: 2 self-tests, 3 mutations of the rebuilder are caught.",
      "TLA+ grammar specification (PenneGrammar.tla) + TLC exhaustive derivation, replay of every module through parse/rebuild/parse/rebuild",
      "DESIGN.md section 5 C20")

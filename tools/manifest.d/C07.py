check("C07", "model_checking",
      "TLC enumerates the whole typing matrix (18 operators x 21 operand shapes squared, casts, bitcasts, assignments, "
      "initialisations, structure members, constants, array elements, arguments in first and second position, argument counts, returns; every "
      "cell with 0..2 address markers) and evaluates the declarative typing judgement R on each cell, checking the model of the "
      "resolver's decision order against it; every cell is replayed as a minimal fully annotated program on the real front end "
      "(accept/reject and the E5xx code on the construct). Seeded larger well-typed programs over all primitive types, the valid "
      "corpus and single-edit type-breaking mutants are compiled; every typed node of the resolved tree and every mutant is "
      "validated by TLC against the same judgement. Exhaustive over the representative shapes on the real code, sampled beyond. "
      "Type inference (Inference.tla, the rule; InferenceAlg.tla, the three passes of typer.rs; TLC checks A |= R): every body with "
      "unannotated declarations / unsuffixed literals up to the bound whose constraints are unsatisfiable or undetermined must be rejected, "
      "and the types resolved in an accepted body are the unique solution.",
      "Trusted: TLC, the rule R in spec/TypeRules.tla (read off the property, docs/errors.md E5xx/E333, docs/features.md, "
      "docs/syntax.md), the renderer and the projection of resolved::ValueType. Shapes are representatives over i32 "
      "(thorough: more pointee/element types). Cells the docs leave open are unconstrained (spec/UNCONSTRAINED-types.md). "
      "Every kind of cell is also crossed (reduced type pairs) with 10 expression contexts and 9 statement contexts; the rule ignores the context. Assignment targets also range over 16 path shapes (element, member of member, member of element of member array, member through pointer member, ...). Quick: 25 057 cells + 240 programs x 8 mutants; thorough: ~33 000 cells + 3000 programs x 10 mutants.",
      "TLA+ spec (TypeRules.tla) + TLC exhaustive enumeration, replay of every cell, TLC trace validation of resolved-tree facts and mutants",
      "DESIGN.md section 5 C07")

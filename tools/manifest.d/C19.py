check("C19", "model_checking",
      "spec/Fuzzer.tla models the emission automaton of fill_to_capacity_with_tokens (line breaks, comments, add_whitespace, "
      "add_space_if_necessary, a table of representative spellings per spelling class); TLC checks with the reference lexer PenneLex "
      "that every (last emission, separator, next emission) lexes without a lexical error for both generations and is valid UTF-8, "
      "and the size arithmetic. The REAL generator is run through hook H6 (seeded entry point) as `penne fuzz tokens --kb N` drives "
      "it, sizes 1..64 KB (200 runs quick, 5000 thorough): output must be valid UTF-8, >= N KiB, and free of lexical errors for both "
      "real lexers; line-aligned windows of both token streams are validated by TLC (Trace_Lex, incl. the claim that the rule finds "
      "no invalid lexeme); adjacencies of the real output must be ones the model can produce (else MODEL-DRIFT). Now 760 / 8000 runs, three quarters of them "
      "at 1 KB (the END of the output is the largest part of a small one), sizes up to 256 KB / 2 MB, a window at the end of every output, and the real "
      "`penne fuzz tokens --kb N --out-dir D` binary (12 / 47 runs).",
      "Trusted: TLC, PenneLex.tla, the seeded entry point (same code path, StdRng instead of ThreadRng). The model enumerates spelling "
      "classes by representatives, not every random value; the real generator is sampled (seeds reproduce runs exactly for the "
      "pinned rand version).",
      "TLA+ model of the generator checked against the reference lexer, seeded runs of the real generator lexed by both real lexers, TLC trace validation of token-stream windows",
      "DESIGN.md section 5 C19")

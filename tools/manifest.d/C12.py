check("C12", "model_checking",
      "TLC exhaustively checks the model of expander::expand (import pairs as a SET, Splice picks any remaining pair) against the rule "
      "Visible(m) = Own(m) + public declarations of directly imported modules (never private, never transitively imported items; imported "
      "items are non-public signatures) on every program up to the bound x every splice order, i.e. confluence of the visible sets; every "
      "input is run through the real expander and scoper with a probe per (module, name) (E401/E402/E405 for everything invisible); "
      "random larger module sets are validated by TLC from the recorded splice events; generated programs split into 2-4 files are "
      "compiled, linked and executed in every file order against the single file, and modules are compiled alone and after an unrelated "
      "module through one Compiler; private items of the SAME name in 2-3 modules (scalar / array / structure / word constants, functions; every way of reading, "
      "import relation and file order; SameNames.tla computes the exit status) and imports that are both an exact and a relative path (ImportPaths.tla: which file they bind to, every file order) are compiled and executed; the records being evaluated by TLC.",
      "Trusted: TLC, the rule R in spec/Modules.tla, the renderer, lli as executor. Bound: quick <= 3 modules x 1 declaration, 2 x 2 (import lines at every position, "
      "also written twice) and 4 x 1 with at most one private declaration (code's splice order only), thorough 3 x 2; declarations are "
      "functions, heads, constants, structures/words, every second one extern; all import relations incl. self/mutual; random sets <= 6 "
      "modules x 3 declarations in two sub-directories, equal file names in different directories, doubled imports; 90 (1200) programs x "
      "2 partition modes x all file orders (every third split: 4-7 files, 10 orders, equal private names, an unrelated module compiled "
      "along); 120 (1500) histories (a faulty module, two unrelated modules). Not decided here: the ORDER of spliced declarations and the "
      "IR text, which depend on HashSet iteration order (a separate configuration shows the non-confluence; it belongs to C13). "
      "Split equivalence is sampled (generated programs), not exhaustive.",
      "TLA+ spec (Modules.tla: rule, Splice nondeterminism, Gen) + TLC, replay of every input, TLC trace validation of splice hook "
      "events, metamorphic split/history records evaluated by TLC",
      "DESIGN.md section 5 C12")

check("C18", "model_checking",
      "TLC enumerates the full product of command-line configurations of Cli.tla (subcommand x verbosity x colour x arrows x wasm x out-dir x "
      "backend sources x backend status (exit / killed by a signal) x input kind x modules x path form, 27 072 configurations) with the observables the rule prescribes "
      "(exit status, selected backend, .pn.ll per module under the out dir, rendered diagnostics, no ESC under --color=never, ASCII frames "
      "under --arrows=ascii, silent stdout, program output and status for run, backend arguments, wasm triple); each selected configuration is "
      "replayed against the real binary with recording fake backends (real lli for run). Thorough = the full product, quick = pairwise cover + sample. "
      "Second part (CliDiag.tla): every sample of the diagnostic catalogue (all files of tests/samples/invalid that show an error code, plus the "
      "lint-only samples; ~80 distinct codes) x subcommand x --color x --arrows (x --verbose, thorough): the options change the rendering only "
      "(same codes, non-zero status, no ESC under --color=never, no non-ASCII character that is not quoted source under --arrows=ascii). "
      "Third part (CliArgs.tla): every base invocation with up to 2 (3) deviations among -o, backend / link arguments by flag and / or config file, "
      "wasm in the config, broken config files, 1-3 input files in both orders, unreadable inputs, out dirs that are missing / deep / a file, core: and vendor: "
      "paths, the same module twice, NO_COLOR / TERM=dumb, and the `penne fuzz tokens` product (1 746 / 13 074 + 84 configurations), each replayed on the real binary. "
      "Fourth part (CliSession.tla, a state machine): sessions of up to 4 (5) steps in ONE output directory -- emit, and to one step less also build with the recording backend "
      "(both modules / the imported one, native / --wasm), "
      "edit of one source text, a foreign file planted at the path of an IR file, removal; TLC checks that the rule makes an emission a function of sources and target "
      "alone and emits every behaviour ending with an emission (3 888 / 43 k); each is replayed, every IR file and the standard input of the backend compared after every emission with the same invocation in an empty directory; "
      "40 (400) random sessions of 25 steps recorded from the real binary are validated by TLC against the same specification (Trace_CliSession.tla).",
      "Trusted: TLC, the fake backends, the reading of --silent as 'no visible output'. Absolute input paths are outside the property's "
      "quantifier (noted, not reported). The optimised build is the binary under test.",
      "TLA+ specs (Cli.tla, CliDiag.tla, CliArgs.tla, CliSession.tla) + TLC enumeration of the configuration products, one implementation test per configuration on the real binary",
      "DESIGN.md section 5 C18")

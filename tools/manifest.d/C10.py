check("C10", "model_checking",
      "TLC evaluates constant expressions (operator matrix and depth-2 trees) with the same Machine.tla that defines run-time "
      "behaviour, and lengths and sizes with Layout.tla; every cell is compiled three ways (constant with literal operands, chain "
      "of named constants in reverse dependency order, run time from variables; binary cells also with ONE operand constant: run-time op named constant, literal op run-time) and every printed value is compared with the "
      "specification; every (length 0..8 x passing mode x element type) and every structure up to the member bound is replayed. "
      "Also: cast chains 3 deep, mixed constant expressions (|:T| x casts x other constants, MC_MachineConst: TLC checks constant = run time as an "
      "invariant), aggregate constants with computed members, lengths that are chains of constant expressions in 10 positions, each pack with its "
      "constants in dependency order, in reverse order and after all functions; huge types (2^29..2^33 bytes, Wide.tla limbs); pointer-to-array, "
      "array-of-pointers, words of every size in MC_Layout. Under `--wasm` every structure of MC_Layout is measured by the real binary (`|:T|`, through a constant, `|:[3]T|`; values read off the IR) against Layout.tla SizeOfT with 4-byte pointers and usize.",
      "Trusted: TLC, Machine.tla/Wide.tla, Layout.tla (layout rule from the property + size_of_struct sample), decimal<->limb conversion. "
      "Bounds: quick operator matrix all types + trees on {i8,i32,u16,u64}, structures <=3 members; thorough trees on all 11 types, <=4 members.",
      "TLA+ semantics (Machine.tla, Layout.tla) evaluated by TLC, exhaustive cell enumeration replayed on the compiler (const vs const-chain vs run time)",
      "DESIGN.md section 5 C10")

#!/bin/sh
# usage: tools/seed_intake.sh <worktree> <seed-id> <property> "<detected-by text>"
# copies SEED/ of a scratch worktree into /verif/seeded/<seed-id>/, adds what was run, removes the worktree
set -e
WT="$1"; ID="$2"; PROP="$3"; DET="$4"
DST=/verif/seeded/$ID
mkdir -p "$DST"
cp -r "$WT"/SEED/* "$DST"/
rm -f "$DST"/*.ll
python3 - "$DST" "$PROP" "$DET" <<'PY'
import json,sys,os
dst,prop,det=sys.argv[1:4]
p=os.path.join(dst,'meta.json')
m=json.load(open(p)) if os.path.exists(p) else {}
m['property_id']=prop
m['confirmed_by_lead']={'pinned_suite':'cargo test --workspace --no-fail-fast --offline in the scratch worktree: 75 passed / 225 failed with the change',
 'demo':'demonstration re-run in the scratch worktree with and without the change',
 'check_run':'PENNE_REPO=<scratch worktree> bin/check %s --tier quick'%prop,
 'detected':det}
json.dump(m,open(p,'w'),indent=1)
PY
git -C /repo worktree remove --force "$WT"
echo "seed $ID stored, worktree removed"
